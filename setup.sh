#!/bin/bash
# Offline setup: nothing to install (stdlib + /venv only). Smoke-test imports.
set -e
cd "$(dirname "$0")"
mkdir -p .work evidence
/venv/bin/python -c "import sys; assert sys.version_info[:2] >= (3, 12), sys.version; import pyworkers, vlib.common, vlib.case; print('setup ok', pyworkers.__file__)"
