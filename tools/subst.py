"""Byte-exact substitution helper that preserves a file's CRLF/LF convention.
usage (python): from tools.subst import subst; subst(path, old, new)"""


def subst(path, old, new, count=1):
    raw = open(path, 'rb').read()
    crlf = b'\r\n' in raw
    o, n = old.encode(), new.encode()
    if crlf:
        o = o.replace(b'\r\n', b'\n').replace(b'\n', b'\r\n')
        n = n.replace(b'\r\n', b'\n').replace(b'\n', b'\r\n')
    assert raw.count(o) == count, (path, raw.count(o))
    open(path, 'wb').write(raw.replace(o, n))
