#!/venv/bin/python
"""Confirm a seeded change and measure which checks catch it.

usage: tools/seed_verify.py <name> <dir with patch.diff + demo.py [+ notes.md]> <property id> [checks to run ...] [--tests "<pytest args>"]

Creates its own scratch worktree of /repo HEAD under /tmp, verifies that the
demonstration passes without and fails with the patch, optionally runs the
given tests with the patch, runs the named checks (default: the property's own)
against the patched worktree, stores everything under seeded/<name>/ and
removes the worktree."""
import json
import os
import shutil
import subprocess
import sys
import time

HERE = os.path.dirname(os.path.dirname(os.path.abspath(__file__)))
PY = '/venv/bin/python'


def sh(cmd, cwd=None, env=None, timeout=3600):
    p = subprocess.run(cmd, cwd=cwd, env=env, shell=isinstance(cmd, str), stdout=subprocess.PIPE, stderr=subprocess.STDOUT, timeout=timeout)
    return p.returncode, p.stdout.decode('utf-8', 'replace')


def main():
    args = sys.argv[1:]
    tests = None
    tier = 'quick'
    if '--tests' in args:
        i = args.index('--tests')
        tests = args[i + 1]
        del args[i:i + 2]
    if '--tier' in args:
        i = args.index('--tier')
        tier = args[i + 1]
        del args[i:i + 2]
    name, src, prop = args[0], args[1], args[2]
    checks = args[3:] or [prop]
    out = os.path.join(HERE, 'seeded', name)
    os.makedirs(out, exist_ok=True)
    for f in ('patch.diff', 'demo.py', 'notes.md'):
        if os.path.exists(os.path.join(src, f)) and os.path.abspath(src) != os.path.abspath(out):
            shutil.copy(os.path.join(src, f), os.path.join(out, f))
    wt = '/tmp/seedwt_%s_%d' % (name, os.getpid())
    sh(['git', '-C', '/repo', 'worktree', 'add', '-q', '--detach', wt, 'HEAD'])
    meta = {'name': name, 'property': prop, 'repo_head': sh(['git', '-C', '/repo', 'rev-parse', '--short', 'HEAD'])[1].strip(), 'verified_at': time.strftime('%Y-%m-%dT%H:%M:%SZ', time.gmtime())}
    try:
        env = dict(os.environ, PYTHONPATH=wt, PYTHONDONTWRITEBYTECODE='1')
        env.pop('PYWORKERS_VERIF_INJECT', None)
        demo = os.path.join(out, 'demo.py')
        rc0, o0 = sh([PY, demo], cwd=wt, env=env, timeout=600)
        meta['demo_without_change'] = {'rc': rc0, 'tail': o0[-400:]}
        rc, o = sh(['git', '-C', wt, 'apply', os.path.join(out, 'patch.diff')])
        meta['patch_applies'] = rc == 0
        if rc != 0:
            meta['apply_error'] = o[-400:]
        rc1, o1 = sh([PY, demo], cwd=wt, env=env, timeout=600)
        meta['demo_with_change'] = {'rc': rc1, 'tail': o1[-400:]}
        meta['demo_confirms'] = (rc0 == 0 and rc1 != 0)
        rc, o = sh([PY, '-c', 'import pyworkers, pyworkers.pool, pyworkers.remote_server, pyworkers.remote_context, pyworkers.persistent_remote, pyworkers.persistent_process, pyworkers.persistent_thread; print(pyworkers.__file__)'], cwd=wt, env=env)
        meta['imports_with_change'] = (rc == 0 and wt in o)
        if tests:
            t0 = time.time()
            rc, o = sh('%s -m pytest -q -p no:cacheprovider --timeout=300 %s' % (PY, tests), cwd=wt, env=env, timeout=7200)
            meta['tests_with_change'] = {'args': tests, 'rc': rc, 'summary': o.strip().split('\n')[-1][:200], 'wall_s': round(time.time() - t0)}
        meta['checks'] = {}
        for c in checks:
            t0 = time.time()
            rc, o = sh(['./check', c, tier], cwd=HERE, env=dict(os.environ, VERIF_REPO=wt), timeout=7200)
            viol = [l for l in o.split('\n') if l.startswith('VIOLATION')]
            keys = [l.strip()[:300] for l in o.split('\n') if l.strip().startswith('key=')]
            meta['checks'][c] = {'tier': tier, 'rc': rc, 'caught': (rc == 1 and bool(viol)), 'violation_lines': len(viol), 'keys': keys[:6], 'wall_s': round(time.time() - t0),
                                 'summary': [l for l in o.split('\n') if ' tier=' in l][-1:]}
        meta['caught_by'] = [c for c, v in meta['checks'].items() if v['caught']]
    finally:
        sh(['git', '-C', '/repo', 'worktree', 'remove', '--force', wt])
        sh(['git', '-C', '/repo', 'worktree', 'prune'])
    prev = {}
    mp = os.path.join(out, 'meta.json')
    if os.path.exists(mp):
        try:
            prev = json.load(open(mp))
        except ValueError:
            prev = {}
    for k in ('needs', 'what_it_breaks', 'author'):
        if k in prev:
            meta[k] = prev[k]
    if 'checks' in prev:
        merged = dict(prev['checks'])
        merged.update(meta['checks'])
        meta['checks'] = merged
        meta['caught_by'] = [c for c, v in merged.items() if v.get('caught')]
    json.dump(meta, open(mp, 'w'), indent=1)
    print(json.dumps({k: meta[k] for k in ('name', 'property', 'demo_confirms', 'patch_applies', 'caught_by')}, indent=0))
    for c, v in meta['checks'].items():
        print(' ', c, 'rc', v['rc'], 'caught' if v['caught'] else 'MISSED', v['keys'][:2])
    if tests:
        print('  tests:', meta['tests_with_change']['summary'])


if __name__ == '__main__':
    main()
