#!/venv/bin/python
"""Regenerates MANIFEST.json from the table below (single source of truth) and
validates it against the schema."""
import json
import os
import sys

HERE = os.path.dirname(os.path.dirname(os.path.abspath(__file__)))

# pid -> (category, technique, level text, level_note, design_ref)
CHECKS = {}

NOT_BUILT = 'check not built yet (work in progress; see DESIGN.md section 5 for the planned monitor)'


def check(pid, category, technique, text, note):
    CHECKS[pid] = dict(category=category, technique=technique, text=text, note=note)


sys.path.insert(0, HERE)
from tools.manifest_table import register  # noqa
register(check)


def main():
    props = [json.loads(l)['id'] for l in open(os.path.join(HERE, 'properties.jsonl'))]
    checks = []
    for pid in props:
        if pid not in CHECKS:
            continue
        c = CHECKS[pid]
        checks.append({
            'property_id': pid,
            'quick_cmd': './check %s quick' % pid,
            'thorough_cmd': './check %s thorough' % pid,
            'evidence_file': 'evidence/%s.json' % pid,
            'replay_cmd_template': './check %s --replay {path}' % pid,
            'engine': 'runtime-monitor',
            'level_claimed': {'category': c['category'], 'text': c['text'], 'design_ref': 'DESIGN.md section 5, ' + pid},
            'level_note': c['note'],
            'technique': c['technique'],
        })
    man = {
        'version': 1,
        'setup_cmd': './setup.sh',
        'hooks': {
            'guard': 'PYWORKERS_VERIF_INJECT',
            'enable': 'No source hooks in /repo. Instrumentation is source-free: checks put vlib/inject (sitecustomize.py, sys.monitoring based) on PYTHONPATH of the case processes and configure it through the PYWORKERS_VERIF_INJECT environment variable, which spawned children inherit. With the variable unset nothing of /verif is imported. /repo is installed editable in /venv, so the working tree is what runs.',
            'baseline_off_cmd': 'cd /repo && env -u PYWORKERS_VERIF_INJECT /venv/bin/python -m pytest -ra -q -p no:cacheprovider --timeout=900 --continue-on-collection-errors',
            'source_commits': [],
            'add_only': True,
        },
        'engines': [{
            'name': 'runtime-monitor',
            'path': 'vlib/',
            'serves_properties': [c['property_id'] for c in checks],
            'kind_free_text': 'runtime monitoring: real /repo code driven by enumerated landing points (sys.monitoring injector), scheduler shims, scripted peers and generated histories; offline oracles over recorded client-boundary event logs',
        }],
        'checks': checks,
        'notes': 'All verdicts are about executions of /repo\'s working tree. Exit 0 held / 1 violation (VIOLATION line) / 2 inconclusive. Known findings: known_findings.json. Seeded breakages: seeded/.',
        'not_applicable': [{'property_id': p, 'reason': NOT_BUILT} for p in props if p not in CHECKS],
    }
    with open(os.path.join(HERE, 'MANIFEST.json'), 'w') as f:
        json.dump(man, f, indent=1)
    try:
        import jsonschema
        jsonschema.validate(man, json.load(open('/root/.vp/MANIFEST.schema.json')))
        print('MANIFEST.json valid;', len(checks), 'checks claimed,', len(man['not_applicable']), 'not applicable')
    except ImportError:
        print('MANIFEST.json written (jsonschema not available here)')


if __name__ == '__main__':
    main()
