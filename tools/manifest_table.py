"""Claimed checks (filled in as checks are built)."""


def register(check):
    check('C10', 'fault_enumeration', 'runtime monitor: scripted-socket fault enumeration with differential oracle',
          'The real send_msg/recv_msg pair is executed over a scripted transport: every segmentation of short streams (exhaustive), every single and double cut and every truncation offset of mid-size streams, seeded cuts/truncations of streams up to ~1 MB, FIN and RST endings; thorough adds real socketpairs with a dribbling sender. Oracle: message equality, ConnectionClosedError on truncation, logical spin bound.',
          'Transport model: recv(n) returns 1..n bytes, then b"" or ConnectionResetError. Held on the enumerated/sampled cuts only; payload classes are generated, not all picklable values.')
