"""Claimed checks (filled in as checks are built)."""


def register(check):
    pass
