"""Claimed checks (filled in as checks are built)."""


def register(check):
    check('C10', 'fault_enumeration', 'runtime monitor: scripted-socket fault enumeration with differential oracle',
          'The real send_msg/recv_msg pair is executed over a scripted transport: every segmentation of short streams (exhaustive), every single and double cut and every truncation offset of mid-size streams, seeded cuts/truncations of streams up to ~1 MB, FIN and RST endings; thorough adds real socketpairs with a dribbling sender. Oracle: message equality, ConnectionClosedError on truncation, logical spin bound.',
          'Transport model: recv(n) returns 1..n bytes, then b"" or ConnectionResetError. Held on the enumerated/sampled cuts only; payload classes are generated, not all picklable values.')
    check('C13', 'exploration', 'runtime monitor: differential round-trip (remote_pickle vs pickle) with hook-call logging',
          'Real remote_pickle.dumps/loads are run next to pickle on generated class hierarchies and object graphs (containers, shared references, cycles, __getstate__/__setstate__/__reduce__/__getnewargs__/__slots__/**kwargs variants), a standard-library value menu (incl. copyreg-registered types) and protocols 2-5, remote True/False; canonical forms and per-class hook logs must agree; standard pickle/copy/deepcopy/ForkingPickler must never pass remote=True; the opt-in consistency rule is checked on the exhaustive table of 1-3 class chains against an independent model.',
          'Equivalence is judged by a canonical walk (shape, types, values, sharing, cycles) plus hook-call logs; graphs standard pickle cannot round-trip only require that remote_pickle fails too. Generated classes, not arbitrary user classes.')
    check('C14', 'exploration', 'runtime monitor: enumerated arrangement grammar with per-instance hook-log oracle',
          'Every arrangement of 0-4 opt-in instances in the grammar (siblings, containers, chains, shared, cyclic, mixed with plain objects) x class variants x protocols is round-tripped through the real remote_pickle; per-instance logs must show exactly one __getstate__(remote=True) and one __setstate__ with the own state, loads must succeed and the canonical shape must be preserved. Seeded random graphs over generated opt-in hierarchies widen it.',
          'Arrangement grammar is finite and enumerated completely; opt-in classes keep attributes in __dict__. One open known finding (>=2 opt-in sibling attributes) is keyed by symptom+arrangement feature.')
