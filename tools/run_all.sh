#!/bin/bash
# Runs every claimed check (tier $1, default quick) and validates the evidence files.
cd "$(dirname "$0")/.."
tier="${1:-quick}"
rc=0
for id in $(python3 -c "import json;print(' '.join(c['property_id'] for c in json.load(open('MANIFEST.json'))['checks']))"); do
  s=$(date +%s)
  out=$(./check "$id" "$tier" 2>&1); r=$?
  e=$(date +%s)
  echo "$id rc=$r $((e-s))s $(echo "$out" | grep -E 'tier=' | tail -1)"
  echo "$out" | grep -E "^(VIOLATION|KNOWN-FINDING|INCONCLUSIVE)" | cut -c1-220
  [ $r -ne 0 ] && rc=1
done
python3-vt - <<'PY'
import json, glob, jsonschema
sch = json.load(open('/root/.vp/EVIDENCE.schema.json'))
for f in sorted(glob.glob('evidence/*.json')):
    try:
        jsonschema.validate(json.load(open(f)), sch)
    except Exception as e:
        print('EVIDENCE INVALID', f, str(e)[:200])
print('evidence files:', len(glob.glob('evidence/*.json')))
PY
exit $rc
