"""Generic worker life-cycle case (runs inside a case process).  It drives one
worker of a given class through create -> [enqueue...] -> [close] -> landing
point rendez-vous -> action -> death observation, and only *records*: calls,
returns, repeated observations of the public accessors, result stream, marker
files, /proc facts.  C01, C03, C06, C16 apply different oracles to this log."""
import glob
import hashlib
import json
import os
import queue
import signal
import threading
import time

from vlib.case import Bounded, HANG, Raised, describe_exc
from vlib.common import pid_running, proc_stat, descendants
from vlib import vtargets

CLASSES = {
    'ThreadWorker': ('pyworkers.thread', False),
    'ProcessWorker': ('pyworkers.process', False),
    'RemoteWorker': ('pyworkers.remote', False),
    'PersistentThreadWorker': ('pyworkers.persistent_thread', True),
    'PersistentProcessWorker': ('pyworkers.persistent_process', True),
    'PersistentRemoteWorker': ('pyworkers.persistent_remote', True),
}


def get_class(name):
    import importlib
    if name.startswith('Stateful'):
        return getattr(importlib.import_module('vlib.vstate'), name), 'Persistent' in name
    mod, pers = CLASSES[name]
    return getattr(importlib.import_module(mod), name), pers


def enc(v):
    r = repr(v)
    out = {'type': type(v).__name__, 'repr': r[:160]}
    if len(r) > 160:
        out['sha'] = hashlib.sha1(r.encode('utf-8', 'replace')).hexdigest()[:12]
    try:
        out['len'] = len(v)
    except TypeError:
        pass
    return out


def observe(w, bounded, tag):
    o = {}
    for name in ('is_alive', 'has_error', 'result', 'error', 'user_state'):
        def get(name=name):
            return w.is_alive() if name == 'is_alive' else getattr(w, name)
        v = bounded('obs:%s:%s' % (tag, name), get, 15)
        if v is HANG:
            o[name] = {'HANG': True}
        elif isinstance(v, Raised):
            o[name] = {'RAISED': type(v.exc).__name__, 'msg': str(v.exc)[:160]}
        elif name == 'error':
            o[name] = describe_exc(v) if isinstance(v, BaseException) else (None if v is None else {'NOT_EXC': enc(v)})
        elif name in ('result', 'user_state'):
            o[name] = enc(v)
        else:
            o[name] = v
    return o


def subst(x, d):
    if isinstance(x, str):
        return x.replace('$DIR', d)
    if isinstance(x, list):
        return [subst(y, d) for y in x]
    if isinstance(x, dict):
        return {k: subst(v, d) for k, v in x.items()}
    return x


def wait_point(d, w, log, timeout):
    t0 = time.monotonic()
    while time.monotonic() - t0 < timeout:
        fs = glob.glob(os.path.join(d, 'at_point.*'))
        if fs:
            try:
                with open(fs[0]) as f:
                    info = json.load(f)
                log.ev('at_point', **{'point': info})
                return info
            except (OSError, ValueError):
                pass
        try:
            if not w.is_alive():
                # the worker ended without reaching the point
                fs = glob.glob(os.path.join(d, 'at_point.*'))
                if not fs:
                    log.ev('no_point', reason='worker dead before point')
                    return None
        except BaseException:  # noqa
            pass
        time.sleep(0.002)
    log.ev('no_point', reason='timeout')
    return None


def lifecycle(spec, log):
    import logging
    if spec.get('quiet', True):
        logging.disable(logging.CRITICAL)
    d = spec['dir']
    markdir = os.path.join(d, 'marks')
    os.makedirs(markdir, exist_ok=True)
    bounded = Bounded(log)
    cls, persistent = get_class(spec['cls'])
    if spec.get('target') and spec['target'].startswith('main:'):
        import sys as _sys
        target = getattr(_sys.modules['__main__'], spec['target'][5:])
    else:
        target = getattr(vtargets, spec['target']) if spec.get('target') else None
    targs = subst(spec.get('targs', []), markdir)
    tkwargs = subst(spec.get('tkwargs', {}), markdir)
    server = None
    kw = dict(args=targs, kwargs=tkwargs)
    if 'init_state' in spec:
        kw['init_state'] = spec['init_state']
    if 'run' in spec:
        kw['run'] = spec['run']
    if spec.get('tuple_args'):
        kw['args'] = tuple(targs)
    if spec.get('mux'):
        from pyworkers.utils import Pipe
        kw['results_pipe'] = Pipe()
    try:
        if 'Remote' in spec['cls']:
            from pyworkers.remote_server import spawn_server
            server = bounded('spawn_server', lambda: spawn_server(('127.0.0.1', 0)), 60)
            if server is HANG or isinstance(server, Raised):
                return {'fatal': 'no server'}
            log.ev('server', pid=server.pid, addr=list(server.addr))
            kw['host'] = server.addr
        if spec.get('in_context') and 'Remote' in spec['cls']:
            # the worker is created inside a remote context, which supplies target and defaults
            from pyworkers.remote_context import RemoteContext
            ctx = bounded('create_context', lambda: RemoteContext(4242, host=server.addr, target=target, args=kw.pop('args'), kwargs=kw.pop('kwargs')), 60)
            if ctx is HANG or isinstance(ctx, Raised):
                return {'fatal': 'context failed'}
            kw['context'] = 4242
            w = bounded('create', lambda: cls(None, **kw), 60)
        else:
            w = bounded('create', lambda: cls(target, **kw), 60)
        if w is HANG or isinstance(w, Raised):
            return {'fatal': 'create failed'}
        wid = w.id
        log.ev('created', id=list(wid), pid=wid[1], parent_pid=os.getpid(), alive=w.is_alive())
        results = []
        n_enq = 0
        if persistent:
            for inp in subst(spec.get('inputs', []), markdir):
                r = bounded('enqueue', lambda inp=inp: w.enqueue(*inp), 20, inp=inp)
                if not isinstance(r, Raised) and r is not HANG:
                    n_enq += 1
            if spec.get('read_first'):
                for _ in range(spec['read_first']):
                    r = bounded('next_result', lambda: w.next_result(), 20)
                    if r is HANG or isinstance(r, Raised):
                        break
                    results.append(r)
                    log.ev('result', value=enc(r), raw=_raw(r))
            if spec.get('close_before_point', True):
                bounded('close', lambda: w.close(), 20)
        point = None
        if spec.get('expect_point'):
            point = wait_point(d, w, log, spec.get('point_timeout', 15))
        if spec.get('state_probe'):
            # parent's view while the child is provably alive (parked at the landing point) / just created
            log.ev('state_alive', value=enc(w.user_state), alive=w.is_alive(), at_point=(point is not None))
            r = bounded('set_user_state', lambda: setattr(w, 'user_state', 12345), 10)
            log.ev('state_set_from_parent', rejected=(isinstance(r, Raised) and isinstance(r.exc, RuntimeError)), detail=repr(getattr(r, 'exc', r))[:100])
        act = spec.get('action')
        if act and act.get('settle'):
            time.sleep(act['settle'])
        if act and (point is not None or not spec.get('expect_point')):
            kind = act['kind']
            if kind == 'terminate':
                a = {}
                if 'timeout' in act:
                    a['timeout'] = act['timeout']
                if 'force' in act:
                    a['force'] = act['force']
                if 'Remote' in spec['cls'] and 'timeout' in act and act.get('remote_timeout', True):
                    a['remote_timeout'] = act['timeout']
                r = bounded('terminate', lambda: w.terminate(**a), act.get('deadline', 60), args=a)
                log.ev('pid_after_terminate', running=(pid_running(wid[1]) if wid[1] != os.getpid() else None))
            elif kind == 'signal':
                os.kill(wid[1], getattr(signal, act['sig']))
                log.ev('signalled', sig=act['sig'])
            elif kind == 'server_terminate':
                bounded('server.terminate', lambda: server.terminate(), 60)
            elif kind == 'none':
                pass
        if spec.get('expect_point') and spec.get('inject_action') == 'pause':
            open(os.path.join(d, 'resume'), 'w').close()
        via = spec.get('observe_via', 'wait')
        obs = []
        if via == 'mixed':
            # the usual polling idiom: short timed waits mixed with is_alive(); the very first moment death is
            # reported (either way) is observed at once, before anything else could complete the picture
            t0p = time.monotonic()
            seen = None
            while time.monotonic() - t0p < spec.get('wait_timeout', 20):
                r = bounded('poll_wait', lambda: w.wait(0.05), 15)
                if r is True or r is HANG or isinstance(r, Raised):
                    seen = 'wait'
                    break
                r = bounded('poll_is_alive', lambda: w.is_alive(), 15)
                if r is False or r is HANG or isinstance(r, Raised):
                    seen = 'is_alive'
                    break
            log.ev('polled', last=seen)
            if seen and r in (True, False):
                obs.append(observe(w, bounded, 'o0'))
        if via == 'poll':
            # death is first observed by polling is_alive() - no wait() in progress while the child runs
            t0p = time.monotonic()
            polled = None
            while time.monotonic() - t0p < spec.get('wait_timeout', 20):
                polled = bounded('poll_is_alive', lambda: w.is_alive(), 15)
                if polled is False or polled is HANG or isinstance(polled, Raised):
                    break
                time.sleep(0.01)
            log.ev('polled', last=(polled if isinstance(polled, bool) else repr(polled)))
        elif via == 'late':
            # the child has exited (OS level) before the parent looks at it for the first time
            t0p = time.monotonic()
            while time.monotonic() - t0p < spec.get('wait_timeout', 20):
                if wid[1] != os.getpid():
                    if not pid_running(wid[1]):
                        break
                elif not w._child.is_alive():
                    break
                time.sleep(0.01)
            time.sleep(0.1)
        dead = bounded('wait', lambda: w.wait(spec.get('wait_timeout', 20)), spec.get('wait_timeout', 20) + 30)
        log.ev('death', dead=(dead is True), pid_running=(pid_running(wid[1]) if wid[1] != os.getpid() else None))
        if dead is True and spec.get('state_probe'):
            # read user_state FIRST (before any other accessor could synchronise it as a side effect)
            log.ev('state_first', value=enc(w.user_state))
            r = bounded('set_user_state_dead', lambda: setattr(w, 'user_state', 12345), 10)
            log.ev('state_set_from_parent_dead', rejected=(isinstance(r, Raised) and isinstance(r.exc, RuntimeError)), detail=repr(getattr(r, 'exc', r))[:100])
        if dead is True:
            obs.append(observe(w, bounded, 'o1'))
            time.sleep(0.05)
            obs.append(observe(w, bounded, 'o2'))
            box = {}
            t = threading.Thread(target=lambda: box.setdefault('o', observe(w, Bounded(log), 'o3')))
            t.start()
            t.join(60)
            obs.append(box.get('o', {'is_alive': {'HANG': True}}))
            bounded('wait_again', lambda: w.wait(0.2), 30)
            obs.append(observe(w, bounded, 'o4'))
            a = {'timeout': 0.2}
            if 'Thread' in spec['cls'] or 'Remote' in spec['cls']:
                a['force'] = False
            bounded('terminate_again', lambda: w.terminate(**a), 30)
            obs.append(observe(w, bounded, 'o5'))
            time.sleep(0.05)
            obs.append(observe(w, bounded, 'o6'))
            for i, o in enumerate(obs):
                log.ev('observation', n=i, obs=o)
        if persistent and spec.get('mux'):
            # Pool-style consumer: multiplex on the raw endpoint; must see an end marker or EOF
            import multiprocessing.connection as mpc
            ep = w.results_endpoint
            while True:
                ready = bounded('mux_wait', lambda: mpc.wait([ep], spec.get('mux_timeout', 8)), 40)
                if ready is HANG or isinstance(ready, Raised):
                    log.ev('mux_end', how='wait-failed')
                    break
                if not ready:
                    log.ev('mux_end', how='timeout-no-marker-no-eof', dead=(dead is True))
                    break
                try:
                    msg = ep.recv()
                except EOFError:
                    log.ev('mux_end', how='eof')
                    break
                except BaseException as e:  # noqa
                    log.ev('mux_end', how='recv-raised:' + type(e).__name__)
                    break
                log.ev('mux_msg', counter=msg[0], flag=msg[1], value=_raw(msg[2]))
                if not msg[1]:
                    log.ev('mux_end', how='marker')
                    break
        elif persistent and dead is True:
            it = w.results_iter()
            while True:
                r = bounded('stream_next', lambda: next(it, StopIteration), 20)
                if r is HANG or isinstance(r, Raised) or r is StopIteration:
                    log.ev('stream_end', how=('hang' if r is HANG else 'stop' if r is StopIteration else 'raised:' + type(r.exc).__name__))
                    break
                results.append(r)
                log.ev('result', value=enc(r), raw=_raw(r))
            r = bounded('next_result_after_end', lambda: w.next_result(), 20)
            is_empty = isinstance(r, Raised) and isinstance(r.exc, queue.Empty)
            log.ev('after_end', empty=is_empty, hang=(r is HANG), other=(None if is_empty or r is HANG else repr(getattr(r, 'exc', r))[:100]))
        for hop in range(spec.get('chain', 0)):
            if persistent:
                r = bounded('restart', lambda: w.restart(timeout=5), 60)
                if r is HANG or isinstance(r, Raised):
                    break
                log.ev('restarted', hop=hop, parent_state=enc(w.user_state), id=list(w.id), alive=w.is_alive())
                nxt = subst(spec['chain_inputs'][hop], markdir)
                bounded('enqueue', lambda: w.enqueue(*nxt), 20)
                r = bounded('next_result', lambda: w.next_result(), 30)
                log.ev('incarnation_first_result', hop=hop, value=_raw(r) if not isinstance(r, Raised) and r is not HANG else repr(getattr(r, 'exc', 'HANG')))
                bounded('wait', lambda: w.wait(20), 50)
                log.ev('state_after_hop', hop=hop, value=enc(w.user_state))
            else:
                prev = w
                nxt = subst(spec['chain_inputs'][hop], markdir)
                kw2 = dict(kw, args=nxt, init_state=prev.user_state)
                w = bounded('recreate', lambda: cls(target, **kw2), 60)
                if w is HANG or isinstance(w, Raised):
                    break
                bounded('wait', lambda: w.wait(20), 50)
                log.ev('state_after_hop', hop=hop, value=enc(w.user_state))
                r = w.result
                log.ev('incarnation_first_result', hop=hop, value=_raw(r))
        marks = {}
        for f in sorted(os.listdir(markdir)):
            with open(os.path.join(markdir, f)) as fh:
                marks[f] = fh.read().strip().split('\n')
        log.ev('marks', marks=marks, worker_tid=wid[2], worker_pid=wid[1])
        inj = {}
        for name in ('landed', 'never_arrived', 'inject_error'):
            fs = glob.glob(os.path.join(d, name + '.*'))
            if fs:
                try:
                    inj[name] = open(fs[0]).read()[:2000]
                except OSError:
                    inj[name] = '?'
        log.ev('injector', **inj)
        return {'ok': True, 'n_enq': n_enq, 'n_results': len(results)}
    finally:
        if server is not None and not isinstance(server, Raised) and server is not HANG:
            try:
                Bounded(log)('server.cleanup', lambda: server.terminate(timeout=1, force=True), 30)
            except BaseException:  # noqa
                pass


def _raw(r):
    try:
        json.dumps(r)
        return r
    except (TypeError, ValueError):
        return repr(r)[:160]
