"""Case process entry point: `python -m vlib.case module:function spec.json log.jsonl`.
The case only *records* (JSONL event log, one monotonic clock); verdicts are
computed offline by the orchestrator."""
import faulthandler
import importlib
import json
import os
import signal
import sys
import threading
import time
import traceback


class EventLog:
    def __init__(self, path):
        self.fd = os.open(path, os.O_WRONLY | os.O_CREAT | os.O_APPEND, 0o644)
        self.lock = threading.Lock()
        self.t0 = time.monotonic()

    def ev(self, ev, **kw):
        kw['ev'] = ev
        kw['t'] = round(time.monotonic() - self.t0, 4)
        data = (json.dumps(kw, default=repr) + '\n').encode()
        with self.lock:
            os.write(self.fd, data)
        return kw


def thread_stack(ident):
    fr = sys._current_frames().get(ident)
    out = []
    while fr is not None:
        out.append('%s:%d %s' % (fr.f_code.co_filename, fr.f_lineno, fr.f_code.co_name))
        fr = fr.f_back
    return out


HANG = object()


class Raised:
    """Returned by Bounded when the call raised (distinguishes a raised exception
    from an exception object that was *returned*, e.g. by worker.error)."""

    def __init__(self, exc):
        self.exc = exc


class Bounded:
    """I5: run a client-boundary call in a daemon thread under a deadline.  The
    call event is written before invoking, the return after; on expiry two stack
    samples of the blocked thread are recorded and HANG is returned."""

    def __init__(self, log):
        self.log = log

    def __call__(self, name, fn, deadline, **info):
        box = {}

        def run():
            try:
                box['ret'] = fn()
            except BaseException as e:  # noqa
                box['exc'] = e
                box['tb'] = traceback.format_exc()

        self.log.ev('call', name=name, deadline=deadline, **info)
        t0 = time.monotonic()
        th = threading.Thread(target=run, daemon=True, name='bounded:' + name)
        th.start()
        th.join(deadline)
        dur = round(time.monotonic() - t0, 4)
        if th.is_alive():
            s1 = thread_stack(th.ident)
            time.sleep(1.0)
            s2 = thread_stack(th.ident)
            if th.is_alive():
                self.log.ev('hang', name=name, dur=dur, stack1=s1[:12], stack2=s2[:12], same=(s1 == s2))
                return HANG
            dur = round(time.monotonic() - t0, 4)
        if 'exc' in box:
            e = box['exc']
            self.log.ev('raise', name=name, dur=dur, etype=type(e).__name__, eargs=repr(getattr(e, 'args', None))[:300], tb=box['tb'][-1500:])
            return Raised(e)
        self.log.ev('return', name=name, dur=dur, value=repr(box.get('ret'))[:300])
        return box.get('ret')


def describe_exc(e):
    if e is None:
        return None
    return {'type': type(e).__name__, 'module': type(e).__module__, 'args': repr(getattr(e, 'args', None))[:200]}


def main():
    target, specf, outf = sys.argv[1:4]
    faulthandler.register(signal.SIGUSR1, file=sys.stderr, all_threads=True)
    with open(specf) as f:
        spec = json.load(f)
    log = EventLog(outf)
    mod, fn = target.split(':')
    try:
        res = getattr(importlib.import_module(mod), fn)(spec, log)
        log.ev('done', result=res)
    except BaseException:
        log.ev('case_error', tb=traceback.format_exc()[-4000:])
    sys.stdout.flush()
    sys.stderr.flush()
    os._exit(0)


if __name__ == '__main__':
    main()
