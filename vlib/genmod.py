"""Home module of the generated classes (so that pickling by reference works)."""
LOG = []


def _rebuild(cls, d, slots):
    o = cls.__new__(cls, 1, 'x') if cls._spec.get('newargs') else cls.__new__(cls)
    if hasattr(o, '__dict__'):
        o.__dict__.update(d)
    for k, v in slots.items():
        setattr(o, k, v)
    return o
