"""Harness side of the landing-point injector: record a reference trace of the
child's run, select landing points, run one fresh worker per point."""
import glob
import json
import os

from vlib.common import REPO, VERIF, run_case, rng

MON_FILES = [os.path.join(REPO, 'pyworkers') + os.sep, os.path.join(VERIF, 'vlib', 'vtargets.py'), os.path.join(VERIF, 'vlib', 'vstate.py')]
WIDE_FILES = MON_FILES  # widened in the thorough tier by callers

EBP_KINDS = ('start', 'resume', 'jump', 'cret')


def stdlib_file(name):
    import importlib
    return importlib.import_module(name).__file__


def cfg(cls, mode, events='ebp', k=-1, action='await', arm_func='_init_child', files=None, arm_caller=None, **extra):
    c = dict(arm={'func': arm_func, 'cls': cls, 'caller': arm_caller}, files=files or MON_FILES, events=events, mode=mode, k=k, action=action)
    c.update(extra)
    return c


def record(spec, cdir, events='ebp', files=None, timeout=90, arm_func='_init_child', arm_cls=None, arm_caller=None, case_target='vlib.wcase:lifecycle'):
    """Reference run: returns (trace events, case result)."""
    sp = dict(spec)
    sp.pop('action', None)
    sp['expect_point'] = False
    res = run_case(case_target, sp, cdir, timeout=timeout,
                   inject=cfg(arm_cls or spec['cls'], 'record', events=events, files=files, arm_func=arm_func, arm_caller=arm_caller))
    trace = []
    for f in glob.glob(os.path.join(cdir, 'trace.*.jsonl')):
        with open(f) as fh:
            t = [json.loads(l) for l in fh if l.strip()]
        if len(t) > len(trace):
            trace = t
    return trace, res


def point_key(e):
    return (e['kind'], e['file'], e['func'], e['line'])


def select(trace, tier, salt, kinds=EBP_KINDS, extra_repeats=12):
    """thorough: every index; quick: first occurrence per (kind, file, func, line)
    plus a seeded sample of repeats."""
    idx = [e['i'] for e in trace if e.get('kind') in kinds]
    if tier == 'thorough':
        return idx
    seen = set()
    first, rest = [], []
    section = sections(trace)
    for e in trace:
        if e.get('kind') not in kinds:
            continue
        # the same helper (child_end, put, id ...) is called from different critical sections of the run
        # loop: a landing point is "new" per (location, enclosing section), not per location alone
        k = point_key(e) + (section.get(e['i']),)
        if k in seen:
            rest.append(e['i'])
        else:
            seen.add(k)
            first.append(e['i'])
    r = rng('select', salt)
    if len(rest) > extra_repeats:
        rest = sorted(r.sample(rest, extra_repeats))
    return sorted(first + rest)


def act(spec, cdir, k, action='await', events='ebp', files=None, timeout=90, arm_func='_init_child', arm_cls=None, arm_caller=None, case_target='vlib.wcase:lifecycle', **extra):
    sp = dict(spec)
    sp['expect_point'] = True
    sp['inject_action'] = action
    return run_case(case_target, sp, cdir, timeout=timeout,
                    inject=cfg(arm_cls or spec['cls'], 'act', events=events, k=k, action=action, files=files, arm_func=arm_func, arm_caller=arm_caller, **extra))


def events_of(res, name):
    return [e for e in res['events'] if e.get('ev') == name]


def first_event(res, name):
    for e in res['events']:
        if e.get('ev') == name:
            return e
    return None


def at_of(trace, k):
    """Location+occurrence address of the recorded event with index k."""
    tgt = None
    for e in trace:
        if e.get('i') == k:
            tgt = e
            break
    if tgt is None:
        return None
    occ = 0
    for e in trace:
        if 'file' not in e:
            continue
        if (e['kind'], e['file'], e['func'], e['line'], e.get('x')) == (tgt['kind'], tgt['file'], tgt['func'], tgt['line'], tgt.get('x')):
            occ += 1
        if e['i'] == k:
            break
    return dict(kind=tgt['kind'], file=tgt['file'], func=tgt['func'], line=tgt['line'], x=tgt.get('x'), occ=occ)


def sections(trace):
    """index -> enclosing section of the run loop: 'send:<n>' inside the n-th _send_result (until control is
    back in do_work; n capped at 2), 'cleanup' from the first _cleanup on, 'handler' inside logger.exception
    of the run function's handler, else None."""
    out = {}
    inside = None
    nsend = 0
    for e in trace:
        if 'i' not in e:
            continue
        f = e.get('func')
        if f == '_send_result' and e.get('kind') == 'start':
            nsend += 1
            inside = 'send:%d' % min(nsend, 2)
        elif f == '_cleanup' and e.get('kind') == 'start':
            inside = 'cleanup'
        elif f == 'exception' and e.get('kind') == 'start' and inside is None:
            inside = 'handler'
        elif inside and inside.startswith('send') and f == 'do_work':
            inside = None
        out[e['i']] = inside
    return out
