"""Module-level value classes for the standard-library menu of C13."""
import collections
import dataclasses
import enum


class Color(enum.Enum):
    RED = 1
    BLUE = 2


class Num(enum.IntEnum):
    ONE = 1
    TWO = 2


class Flag(enum.Flag):
    A = 1
    B = 2


@dataclasses.dataclass
class Point:
    x: int
    y: list


@dataclasses.dataclass(frozen=True)
class Frozen:
    v: int


NT = collections.namedtuple('NT', ['a', 'b'])


class MyError(Exception):
    def __init__(self, a, b):
        super().__init__(a, b)
        self.a = a
        self.b = b


def func(x):
    return x
