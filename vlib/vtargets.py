"""I8 - deterministic targets, importable in spawned children (PYTHONPATH=/verif)."""
import ctypes
import os
import threading
import time

from pyworkers.worker import WorkerTerminatedError


def mark(markdir, name, text=''):
    """Append-only marker file, one writer per file."""
    if not markdir:
        return
    fd = os.open(os.path.join(markdir, name), os.O_WRONLY | os.O_CREAT | os.O_APPEND, 0o644)
    try:
        os.write(fd, ('%s tid=%d pid=%d\n' % (text, threading.get_native_id(), os.getpid())).encode())
    finally:
        os.close(fd)


class PoolDeath(Exception):
    pass


def pool_target(x, poison=()):
    if x in poison:
        raise PoolDeath(x)
    time.sleep(0.004 + 0.002 * (x % 3))
    return ('res', x)


def pool_target_big(x, poison=()):
    """Like pool_target, with a result that does not fit a pipe buffer (a kill can cut it short on the wire)."""
    if x in poison:
        raise PoolDeath(x)
    return ('res', x, b'x' * 400000)


class Val:
    """Custom value class with structural equality."""

    def __init__(self, *a, **k):
        self.a = a
        self.k = k

    def __eq__(self, o):
        return type(o) is Val and o.a == self.a and o.k == self.k

    def __hash__(self):
        return hash(repr(self.a))

    def __repr__(self):
        return 'Val(%r, %r)' % (self.a, self.k)


class CustomError(Exception):
    pass


class TwoArgError(Exception):
    """Cannot be rebuilt by pickle: constructor needs two arguments but args holds one."""

    def __init__(self, a, b):
        super().__init__('%s-%s' % (a, b))
        self.a, self.b = a, b


class CustomBase(BaseException):
    pass


def ret_value(v=None):
    return v


def _rebuild_only_here(pid):
    if os.getpid() != pid:
        raise TypeError('this object can only be rebuilt in the process that made it (pid %d)' % pid)
    return OnlyHere()


class OnlyHere:
    """Pickles fine where it was made, cannot be rebuilt in any other process (a handle to something local)."""
    def __reduce__(self):
        return (_rebuild_only_here, (os.getpid(),))

    def __repr__(self):
        return 'OnlyHere()'


def _slow_box(v, sec):
    time.sleep(sec)
    return SlowBox(v, sec)


class SlowBox:
    """A value whose reconstruction from its pickle takes `sec` seconds (a heavy result, seen from the receiving side)."""
    def __init__(self, v, sec=0.8):
        self.v, self.sec = v, sec

    def __reduce__(self):
        return (_slow_box, (self.v, self.sec))

    def __eq__(self, other):
        return isinstance(other, SlowBox) and other.v == self.v

    def __hash__(self):
        return hash(self.v)

    def __repr__(self):
        return 'SlowBox(%r)' % (self.v,)


def _slow_err(v, sec):
    time.sleep(sec)
    return SlowError(v, sec)


class SlowError(Exception):
    def __init__(self, v, sec=0.8):
        super().__init__(v)
        self.v, self.sec = v, sec

    def __reduce__(self):
        return (_slow_err, (self.v, self.sec))


def ret_slow(v=42, sec=0.8, fail=False):
    """Returns / raises something that is slow to rebuild on the receiving side."""
    if fail:
        raise SlowError(v, sec)
    return SlowBox(v, sec)


def echo(*a, **k):
    return (a, k)


def build(kind, n):
    if kind == 'bytes':
        return b'x' * n
    if kind == 'list':
        return list(range(n))
    if kind == 'dict':
        return {i: str(i) for i in range(n)}
    if kind == 'val':
        return Val(n, [n], k={'n': n})
    if kind == 'nested':
        return {'a': [(n, None, ''), {'b': [n] * 3}], 'c': (Val(n),)}
    raise ValueError(kind)


def arith(a, b=2, *, c=1):
    return a * b + c


def raise_exc(kind, *args):
    import builtins
    import queue
    cls = {'Custom': CustomError, 'TwoArg': None, 'ZeroDivision': ZeroDivisionError, 'CustomBase': CustomBase, 'queue.Empty': queue.Empty, 'queue.Full': queue.Full,
           'WorkerTerminatedError': WorkerTerminatedError}.get(kind)
    if cls is None and kind != 'TwoArg':
        cls = getattr(builtins, kind)       # any built-in exception class by name
    if kind == 'TwoArg':
        raise TwoArgError(*(args or (1, 2)))
    raise cls(*args)


def py_loop(markdir=None, n=None):
    """Interruptible Python loop; the try block covers the whole body."""
    try:
        mark(markdir, 'entered')
        i = 0
        while n is None or i < n:
            i += 1
    except WorkerTerminatedError:
        mark(markdir, 'except_wte')
        raise
    finally:
        mark(markdir, 'finally')
    return i


class _CM:
    def __init__(self, markdir):
        self.markdir = markdir

    def __enter__(self):
        mark(self.markdir, 'entered')
        return self

    def __exit__(self, *exc):
        mark(self.markdir, 'finally', text='exit:%s' % (exc[0].__name__ if exc[0] else None))
        if exc[0] is WorkerTerminatedError:
            mark(self.markdir, 'except_wte')
        return False


def with_block(markdir=None, n=20):
    with _CM(markdir):
        i = 0
        while n is None or i < n:
            i += 1
    return i


def short_work(markdir=None, v=7, steps=12):
    """Finishes on its own after a few loop iterations (phases: running / just returned)."""
    try:
        mark(markdir, 'entered')
        x = 0
        for i in range(steps):
            x += i
        return v
    except WorkerTerminatedError:
        mark(markdir, 'except_wte')
        raise
    finally:
        mark(markdir, 'finally')


def short_raise(markdir=None, steps=8):
    try:
        mark(markdir, 'entered')
        x = 0
        for i in range(steps):
            x += i
        raise CustomError('own', x)
    except WorkerTerminatedError:
        mark(markdir, 'except_wte')
        raise
    finally:
        mark(markdir, 'finally')


def p_work(uid, markdir=None, steps=6, fail=False):
    """Persistent-worker target: unique id in, (uid, sum) out; markers per input."""
    try:
        mark(markdir, 'entered.%s' % uid)
        x = 0
        for i in range(steps):
            x += i
        if fail == 'twoarg':
            raise TwoArgError(uid, 'reason')       # picklable, but cannot be rebuilt by the receiver
        if fail == 'onlyhere':
            return OnlyHere()       # a result the parent cannot rebuild
        if fail:
            raise CustomError('own', uid)
        return [uid, x]
    except WorkerTerminatedError:
        mark(markdir, 'except_wte.%s' % uid)
        raise
    finally:
        mark(markdir, 'finally.%s' % uid)


def big_uid(uid, n=100):
    """Persistent target with a result of n bytes."""
    return [uid, b'x' * n]


def swallow_loop(markdir=None):
    mark(markdir, 'entered')
    while True:
        try:
            while True:
                time.sleep(0.005)
        except Exception:
            mark(markdir, 'swallowed')


def partial_on_terminate(markdir=None, sec=0.4):
    """Co-operative target: when terminated it hands back what it has got so far - a value that takes `sec` seconds
    to rebuild on the receiving side."""
    mark(markdir, 'entered')
    n = 0
    try:
        while True:
            n += 1
            time.sleep(0.002)
    except WorkerTerminatedError:
        return SlowBox('partial', sec)


def return_and_linger(markdir=None, sec=60, stop_after=None):
    """Returns at once but leaves a non-daemon thread behind: the result is delivered, the process stays.
    stop_after: the lingering process SIGSTOPs itself after that many seconds."""
    mark(markdir, 'entered')

    def stay():
        if stop_after is not None:
            time.sleep(stop_after)
            os.kill(os.getpid(), 19)
        time.sleep(sec)
    import multiprocessing
    if multiprocessing.current_process().name != 'MainProcess':
        threading.Thread(target=stay).start()
    return 'done'


def nested_workers(x, how='process'):
    """A target that uses helper processes of its own."""
    if how == 'process':
        from pyworkers.process import ProcessWorker
        ws = [ProcessWorker(ret_value, args=[x + i]) for i in range(2)]
        for w in ws:
            w.wait()
        return sum(w.result for w in ws)
    import multiprocessing
    with multiprocessing.get_context('spawn').Pool(2) as pool:
        return sum(pool.map(abs, [x, -x, 1]))


def sleep_c(sec=30):
    time.sleep(sec)


def hold_gil(sec=30):
    ctypes.PyDLL(None).sleep(int(sec))


def big(n):
    return b'r' * n


def mutate(lst, d=None):
    """Mutates its arguments and reports what it saw before mutating."""
    seen = (list(lst), dict(d or {}))
    lst.append('mutated')
    if d is not None:
        d['mutated'] = True
    return seen


def pecho(uid, *a, **k):
    """Persistent echo: the unique id identifies the input that produced a result."""
    return (uid, a, sorted(k.items()))


def stateful(worker_getter=None):
    pass


def restart_target(uid, d2='X', *, dk=0, kind='ok'):
    """C17 probe target: echoes the unique id, the second default positional and the default keyword."""
    if kind == 'raise':
        raise CustomError('boom', uid)
    if kind == 'raise2':
        # an exception that is picklable in the child but cannot be rebuilt in the parent (two-argument constructor)
        raise TwoArgError(uid, 'reason')
    if kind == 'slow':
        time.sleep(0.4)
    if kind == 'slowbox':
        return [uid, d2, dk, SlowBox(uid, 0.7)]
    if kind == 'gil':
        hold_gil(25)                # a long C call that never lets the child's control thread run
    if kind == 'block':
        # one blocking call: a termination request is only noticed when it returns
        time.sleep(0.4)
    if kind == 'swallow1':
        # ignores the first termination request only
        n = 0
        while True:
            try:
                while True:
                    time.sleep(0.005)
            except Exception:
                n += 1
                if n > 1:
                    raise
    if kind == 'swallow':
        while True:
            try:
                while True:
                    time.sleep(0.005)
            except Exception:
                pass
    return [uid, d2, dk, kind]


def pool_target2(x):
    """C09 pool target: x = [run id, index, flag]; flag True = poison, 'stuck' = never returns, 'linger' = poison that leaves a non-daemon thread in the child."""
    if x[2] == 'stuck':
        while True:
            try:
                while True:
                    time.sleep(0.005)
            except Exception:
                pass
    if x[2] == 'linger':
        # dies of the input, but leaves a non-daemon thread behind: the child process outlives its worker function
        import multiprocessing
        import threading
        if multiprocessing.current_process().name != 'MainProcess':
            threading.Thread(target=time.sleep, args=(60,)).start()
        raise PoolDeath(x)
    if x[2]:
        raise PoolDeath(x)
    time.sleep(0.002)
    return ['res', x]


def ctx_target(x, tag='?', *, mul=1):
    """C18 context target: the context's defaults (tag, mul) identify the context."""
    return [tag, x * mul]


def big_marked(markdir=None, n=100000):
    """Returns a result larger than the pipe buffer; markers like the other landing-point targets."""
    try:
        mark(markdir, 'entered')
        return b'r' * n
    except WorkerTerminatedError:
        mark(markdir, 'except_wte')
        raise
    finally:
        mark(markdir, 'finally')
