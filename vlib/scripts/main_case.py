"""Launched as a *script* so that __main__ really is a script: value/exception
classes and targets defined here are 'defined in the main script' for the
worker kinds (process children re-import it as __mp_main__, remote children
run it as __new_main__)."""
import sys


class MainVal:
    def __init__(self, v):
        self.v = v

    def __eq__(self, o):
        return type(o).__name__ == 'MainVal' and o.v == self.v

    def __repr__(self):
        return 'MainVal(%r)' % (self.v,)


class MainErr(Exception):
    pass


def main_ret(v=3):
    return MainVal(v)


def main_raise(v=3):
    raise MainErr('main', v)


def main_plain(v=3):
    return v * 2


if __name__ == '__main__':
    from vlib.case import main
    main()
