"""Shared plumbing: verdict collection, evidence, known findings, replay files,
case subprocess runner, /proc census.  Used by every checks/cNN.py."""
import collections
import json
import os
import random
import re
import shutil
import signal
import subprocess
import sys
import threading
import time
from concurrent.futures import ThreadPoolExecutor

VERIF = os.path.dirname(os.path.dirname(os.path.abspath(__file__)))
REPO = os.environ.get('VERIF_REPO', '/repo')
PY = os.environ.get('VERIF_PY', '/venv/bin/python')
WORK = os.path.join(VERIF, '.work')
INJECT_DIR = os.path.join(VERIF, 'vlib', 'inject')
GUARD = 'PYWORKERS_VERIF_INJECT'


def get_seed():
    try:
        return int(os.environ.get('VERIF_SEED', '0') or 0)
    except ValueError:
        return 0


def rng(*salt):
    return random.Random('%d/%s' % (get_seed(), '/'.join(str(s) for s in salt)))


def workdir(name):
    d = os.path.join(WORK, '%s.%d' % (name, os.getpid()))
    shutil.rmtree(d, ignore_errors=True)
    os.makedirs(d)
    return d


def load_known():
    p = os.path.join(VERIF, 'known_findings.json')
    if not os.path.exists(p):
        return []
    with open(p) as f:
        return json.load(f)['findings']


def short(o, n=300):
    s = o if isinstance(o, str) else json.dumps(o, default=repr, sort_keys=True)
    return s if len(s) <= n else s[:n] + '...'


class Check:
    """Collects per-case verdicts; finish() writes evidence + replay files and
    returns the exit code (0 held / 1 violated / 2 inconclusive)."""

    def __init__(self, pid, level, tier, rule):
        self.pid, self.level, self.tier, self.rule = pid, level, tier, rule
        self.seed = get_seed()
        self.t0 = time.time()
        self.evaluations = 0
        self.distinct = set()
        self.samples = []
        self.viol = collections.OrderedDict()   # key -> list of (what, witness)
        self.inconc = []
        self.counters = collections.Counter()
        self.extra = {}
        self.assumptions = []
        self.lock = threading.Lock()

    def case(self, distinct_key=None):
        with self.lock:
            self.evaluations += 1
            if distinct_key is not None:
                self.distinct.add(distinct_key if isinstance(distinct_key, str) else json.dumps(distinct_key, default=repr, sort_keys=True))

    def count(self, name, n=1):
        with self.lock:
            self.counters[name] += n

    def sample(self, obj, limit=6, every=1):
        with self.lock:
            if len(self.samples) < limit:
                self.samples.append(obj)

    def violation(self, key, what, witness):
        with self.lock:
            self.viol.setdefault(key, []).append((what, witness))

    def inconclusive(self, why, witness=None):
        with self.lock:
            self.inconc.append((why, witness))

    def finish(self, min_distinct=2, inconclusive_ok=0):
        known = {e['key']: e for e in load_known() if e['property'] == self.pid and e.get('status') == 'open'}
        rc = 0
        unlisted = 0
        known_cases = 0
        rdir = os.path.join(VERIF, 'replays', self.pid) if os.path.realpath(REPO) == '/repo' else os.path.join(WORK, 'replays_alt', self.pid)
        for key, items in self.viol.items():
            if key in known:
                known_cases += len(items)
                print('KNOWN-FINDING: property=%s %s [%s] (%d cases this run)' % (self.pid, known[key]['what'], key, len(items)))
                continue
            unlisted += len(items)
            os.makedirs(rdir, exist_ok=True)
            path = os.path.join(rdir, re.sub(r'[^A-Za-z0-9_.-]+', '_', key)[:120] + '.json')
            with open(path, 'w') as f:
                json.dump({'property': self.pid, 'key': key, 'tier': self.tier, 'seed': self.seed,
                           'what': items[0][0], 'witness': items[0][1], 'n_cases': len(items),
                           'more': [w for _, w in items[1:4]]}, f, indent=1, default=repr)
            print('VIOLATION property=%s replay=%s' % (self.pid, path))
            print('  key=%s: %s (%d cases)' % (key, short(items[0][0], 400), len(items)))
            rc = 1
        ninc = len(self.inconc)
        if rc == 0 and (ninc > inconclusive_ok or len(self.distinct) < min_distinct or self.evaluations == 0):
            why = ('%d inconclusive cases' % ninc) if ninc > inconclusive_ok else 'monitor reached only %d distinct non-trivial cases (< %d)' % (len(self.distinct), min_distinct)
            print('INCONCLUSIVE property=%s %s' % (self.pid, why))
            rc = 2
        for w, wit in self.inconc[:5]:
            print('  inconclusive case:', short(w, 300), short(wit, 600) if wit else '')
        cov = {
            'evaluations': self.evaluations,
            'distinct_nontrivial': len(self.distinct),
            'rule': self.rule,
            'samples': self.samples[:8] or ['<none>'],
            'counters': dict(sorted(self.counters.items())),
            'inconclusive_cases': ninc,
            'known_finding_cases': known_cases,
            'violation_keys': list(self.viol.keys()),
        }
        cov.update(self.extra)
        ev = {'property_id': self.pid, 'tier': self.tier, 'seed': self.seed, 'level': self.level,
              'coverage': cov, 'assumptions': self.assumptions, 'wall_s': round(time.time() - self.t0, 2),
              'violations': unlisted}
        # evidence of runs against another checkout (seeded changes) never overwrites the real evidence
        evdir = os.path.join(VERIF, 'evidence') if os.path.realpath(REPO) == '/repo' else os.path.join(WORK, 'evidence_alt')
        os.makedirs(evdir, exist_ok=True)
        with open(os.path.join(evdir, self.pid + '.json'), 'w') as f:
            json.dump(ev, f, indent=1, default=repr, sort_keys=True)
        print('%s tier=%s seed=%d: %d cases, %d distinct non-trivial, %d unlisted violations, %d known-finding cases, %d inconclusive, %.1fs' % (
            self.pid, self.tier, self.seed, self.evaluations, len(self.distinct), unlisted, known_cases, ninc, time.time() - self.t0))
        for k, v in sorted(self.counters.items()):
            print('   %s=%s' % (k, v))
        return rc


# ---------------------------------------------------------------- /proc census

def proc_stat(pid):
    try:
        with open('/proc/%d/stat' % pid) as f:
            s = f.read()
    except OSError:
        return None
    r = s.rindex(')')
    rest = s[r + 2:].split()
    return {'pid': pid, 'comm': s[s.index('(') + 1:r], 'state': rest[0], 'ppid': int(rest[1]), 'pgrp': int(rest[2]), 'sid': int(rest[3])}


def session_procs(sid, include_zombies=False):
    out = []
    for d in os.listdir('/proc'):
        if d.isdigit():
            st = proc_stat(int(d))
            if st and st['sid'] == sid and (include_zombies or st['state'] not in 'ZX'):
                out.append(st)
    return out


def pid_running(pid):
    st = proc_stat(pid)
    return bool(st) and st['state'] not in 'ZX'


def descendants(root):
    """All live pids whose ppid chain leads to root (root excluded)."""
    by_pp = collections.defaultdict(list)
    for d in os.listdir('/proc'):
        if d.isdigit():
            st = proc_stat(int(d))
            if st and st['state'] not in 'ZX':
                by_pp[st['ppid']].append(st['pid'])
    out, todo = [], [root]
    while todo:
        for c in by_pp.get(todo.pop(), []):
            out.append(c)
            todo.append(c)
    return out


def kill_session(sid, exclude=()):
    for _ in range(3):
        ps = [p for p in session_procs(sid, True) if p['pid'] not in exclude]
        if not ps:
            return
        for p in ps:
            try:
                os.kill(p['pid'], signal.SIGKILL)
            except OSError:
                pass
        time.sleep(0.02)


# ---------------------------------------------------------------- case runner

def case_env(inject=None, extra=None):
    env = dict(os.environ)
    pp = [VERIF]
    if inject is not None:
        pp.insert(0, INJECT_DIR)
        env[GUARD] = json.dumps(inject)
    else:
        env.pop(GUARD, None)
    if os.path.realpath(REPO) != '/repo':
        pp.append(REPO)      # checks run against another checkout of the library (seeded change in a scratch worktree)
    env['PYTHONPATH'] = os.pathsep.join(pp)
    env['PYTHONDONTWRITEBYTECODE'] = '1'
    env.setdefault('PYTHONHASHSEED', '0')
    if extra:
        env.update(extra)
    return env


def run_case(target, spec, cdir, timeout=60, inject=None, env_extra=None, script=None):
    """Run `target` ("module:function") on spec in a throw-away session.
    Returns dict(events=[...], result=..., timed_out=bool, rc=int, stderr=str)."""
    os.makedirs(cdir, exist_ok=True)
    spec = dict(spec, dir=cdir)
    specf, outf = os.path.join(cdir, 'spec.json'), os.path.join(cdir, 'log.jsonl')
    with open(specf, 'w') as f:
        json.dump(spec, f)
    if inject is not None:
        inject = dict(inject, dir=cdir)
    cmd = [PY, script] if script else [PY, '-m', 'vlib.case']
    cmd += [target, specf, outf]
    errf = open(os.path.join(cdir, 'stderr.txt'), 'wb')
    p = subprocess.Popen(cmd, cwd=cdir, env=case_env(inject, env_extra), stdout=errf, stderr=errf,
                         stdin=subprocess.DEVNULL, start_new_session=True)
    timed_out = False
    try:
        p.wait(timeout)
    except subprocess.TimeoutExpired:
        timed_out = True
        # ask the case for its stacks first (faulthandler on SIGUSR1), then kill
        try:
            os.kill(p.pid, signal.SIGUSR1)
            time.sleep(0.3)
        except OSError:
            pass
    leftovers = [q for q in session_procs(p.pid) if q['pid'] != p.pid] if not timed_out else []
    kill_session(p.pid)
    try:
        p.wait(5)
    except subprocess.TimeoutExpired:
        pass
    errf.close()
    events, result = [], None
    try:
        with open(outf) as f:
            for line in f:
                try:
                    e = json.loads(line)
                except ValueError:
                    continue
                events.append(e)
                if e.get('ev') == 'done':
                    result = e.get('result')
    except OSError:
        pass
    try:
        with open(os.path.join(cdir, 'stderr.txt'), 'rb') as f:
            stderr = f.read()[-6000:].decode('utf-8', 'replace')
    except OSError:
        stderr = ''
    return {'events': events, 'result': result, 'timed_out': timed_out, 'rc': p.returncode, 'stderr': stderr,
            'leftovers': leftovers, 'dir': cdir}


def pmap(fn, items, parallel=16):
    items = list(items)
    if not items:
        return []
    with ThreadPoolExecutor(max_workers=max(1, min(parallel, len(items)))) as ex:
        return list(ex.map(fn, items))


def cleanup(d, keep=False):
    if not keep and os.environ.get('VERIF_KEEP') != '1':
        shutil.rmtree(d, ignore_errors=True)
