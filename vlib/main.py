"""./check dispatcher."""
import importlib
import json
import os
import sys


def main():
    args = sys.argv[1:]
    if not args:
        print('usage: ./check <Cnn> [quick|thorough] [--replay path]')
        return 64
    pid = args[0].upper()
    tier = os.environ.get('VERIF_TIER', 'quick')
    replay = None
    i = 1
    while i < len(args):
        a = args[i]
        if a in ('quick', 'thorough'):
            tier = a
        elif a == '--tier':
            i += 1
            tier = args[i]
        elif a == '--replay':
            i += 1
            replay = args[i]
        i += 1
    if tier not in ('quick', 'thorough'):
        tier = 'quick'
    mod = importlib.import_module('checks.' + pid.lower())
    if replay:
        with open(replay) as f:
            spec = json.load(f)
        return mod.replay(spec) or 0
    return mod.run(tier)


if __name__ == '__main__':
    sys.exit(main())
