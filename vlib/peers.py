"""I6 - scripted peers: recording of a real client's byte streams, a raw replay
client (cut at any offset, FIN or RST), and a fake server that plays the server
side of the hand-shake with the repository's own framing."""
import socket
import struct
import threading
import time


class Recorder:
    """Records every sendall() of this process per destination address while a
    real client talks to a real server."""

    def __init__(self):
        self.streams = {}     # peer addr -> bytearray
        self.order = []
        self._orig = None

    def __enter__(self):
        self._orig = socket.socket.sendall
        rec = self

        def sendall(sock, data, *a):
            try:
                peer = sock.getpeername()
            except OSError:
                peer = None
            if peer not in rec.streams:
                rec.streams[peer] = bytearray()
                rec.order.append(peer)
            rec.streams[peer] += bytes(data)
            return rec._orig(sock, data, *a)

        socket.socket.sendall = sendall
        return self

    def __exit__(self, *exc):
        socket.socket.sendall = self._orig


def message_bounds(stream):
    """Offsets of message boundaries of a framed stream."""
    out = [0]
    pos = 0
    while pos + 4 <= len(stream):
        n = struct.unpack('!I', stream[pos:pos + 4])[0]
        pos += 4 + n
        if pos > len(stream):
            break
        out.append(pos)
    return out


def raw_client(addr, data, ending='fin', hold=0.0, after=None, split_last=0.0):
    """Connect, send `data` (optionally holding back its last byte for split_last seconds), optionally
    run after(sock), then close with FIN or RST."""
    s = socket.socket(socket.AF_INET, socket.SOCK_STREAM)
    s.settimeout(5)
    try:
        s.connect(tuple(addr))
        if data and split_last and len(data) > 1:
            s.sendall(data[:-1])
            time.sleep(split_last)
            s.sendall(data[-1:])
        elif data:
            s.sendall(data)
        res = after(s) if after else None
        if hold:
            time.sleep(hold)
    finally:
        try:
            if ending == 'rst':
                s.setsockopt(socket.SOL_SOCKET, socket.SO_LINGER, struct.pack('ii', 1, 0))
            s.close()
        except OSError:
            pass
    return res


def read_msg_raw(sock, timeout=5):
    """Read one framed message as raw bytes (no unpickling)."""
    sock.settimeout(timeout)
    hdr = b''
    while len(hdr) < 4:
        c = sock.recv(4 - len(hdr))
        if not c:
            return None
        hdr += c
    n = struct.unpack('!I', hdr)[0]
    body = b''
    while len(body) < n:
        c = sock.recv(n - len(body))
        if not c:
            return None
        body += c
    return hdr + body


class FakeServer:
    """Accepts one data connection, swallows the client's header and worker
    messages (never unpickles them), then serves a scripted server side.

    script: dict(ctrl_cut=None|int, ctrl_end='fin'|'rst', listener='open'|'closed',
                 info_cut=None|int, info_end='fin'|'rst', after_info='close'|'hold')"""

    def __init__(self, script):
        self.script = script
        self.lsock = socket.socket(socket.AF_INET, socket.SOCK_STREAM)
        self.lsock.setsockopt(socket.SOL_SOCKET, socket.SO_REUSEADDR, 1)
        self.lsock.bind(('127.0.0.1', 0))
        self.lsock.listen()
        self.addr = self.lsock.getsockname()
        self.log = []
        self.thread = threading.Thread(target=self.run, daemon=True)
        self.stop = threading.Event()

    def start(self):
        self.thread.start()
        return self

    @staticmethod
    def _close(sock, how):
        try:
            if how == 'rst':
                sock.setsockopt(socket.SOL_SOCKET, socket.SO_LINGER, struct.pack('ii', 1, 0))
            sock.close()
        except OSError:
            pass

    def run(self):
        from pyworkers.remote import send_msg
        from checks.c10 import CaptureSock
        sc = self.script
        try:
            self.lsock.settimeout(20)
            cli, _ = self.lsock.accept()
            cli.settimeout(10)
            h = read_msg_raw(cli)
            w = read_msg_raw(cli)
            self.log.append(('client-messages', h is not None, w is not None))
            ctrl = socket.socket(socket.AF_INET, socket.SOCK_STREAM)
            ctrl.bind(('127.0.0.1', 0))
            ctrl.listen()
            ctrl_addr = ctrl.getsockname()
            if sc.get('listener') == 'closed':
                ctrl.close()
            cap = CaptureSock()
            send_msg(cap, ctrl_addr)
            msg = bytes(cap.buf)
            self.ctrl_msg_len = len(msg)
            self.log.append(('ctrl-len', len(msg)))
            cut = sc.get('ctrl_cut')
            if cut is not None:
                cli.sendall(msg[:cut])
                # a server that dies here takes its listening control socket with it (a listener left open would let the
                # client connect to nobody and wait - that is a silent server, not a dying one)
                ctrl.close()
                self._close(cli, sc.get('ctrl_end', 'fin'))
                self.log.append(('ctrl-addr-cut', cut))
                return
            cli.sendall(msg)
            if sc.get('listener') == 'closed':
                self.log.append(('ctrl-listener-closed',))
                time.sleep(sc.get('hold', 3))
                self._close(cli, 'fin')
                return
            ctrl.settimeout(10)
            cc, _ = ctrl.accept()
            ctrl.close()
            cap = CaptureSock()
            send_msg(cap, ('fakehost', 4242, 4243, 4244))
            msg = bytes(cap.buf)
            self.info_msg_len = len(msg)
            self.log.append(('info-len', len(msg)))
            cut = sc.get('info_cut')
            if cut is not None:
                cc.sendall(msg[:cut])
                self._close(cc, sc.get('info_end', 'fin'))
                self.log.append(('info-cut', cut))
                if sc.get('data_also', True):
                    time.sleep(0.05)
                    self._close(cli, sc.get('info_end', 'fin'))
                else:
                    time.sleep(sc.get('hold', 3))
                    self._close(cli, 'fin')
                return
            cc.sendall(msg)
            self.log.append(('handshake-complete',))
            time.sleep(sc.get('hold', 0.3))
            self._close(cc, 'fin')
            self._close(cli, 'fin')
        except Exception as e:  # noqa
            self.log.append(('fake-server-error', repr(e)))
        finally:
            try:
                self.lsock.close()
            except OSError:
                pass
