"""I2 - landing-point injector (LPI).  Loaded automatically by every Python
process whose PYTHONPATH contains this directory; does nothing unless the
environment variable PYWORKERS_VERIF_INJECT holds a JSON configuration.

config keys
  dir      scratch directory of the case (trace / at_point / landed files)
  arm      {"func": name, "cls": class name of `self` or null}
  end      list of function names whose return/unwind disarms (default _run, _run_backend)
  files    path prefixes of the monitored files
  events   "ebp" (eval-breaker points: PY_START/PY_RESUME, backward JUMP, C_RETURN/C_RAISE; plus CALL markers)
           | "line" (LINE events of the monitored files)
  mode     "record" | "act"
  k        index of the event to act on (act mode)
  action   "await"  publish, spin until the asynchronous exception arrives
           "notify" publish and continue
           "sigkill" / "sigterm"  signal own process
           "pause"  publish, wait for <dir>/resume (or pause_s seconds)
"""
import os

_CFG = os.environ.get('PYWORKERS_VERIF_INJECT')


def _install(cfg):
    import json
    import signal
    import sys
    import threading
    import time

    mon = sys.monitoring
    E = mon.events
    TOOL = 3
    c = json.loads(cfg)
    d = c['dir']
    arm_func = c['arm']['func']
    arm_cls = c['arm'].get('cls')
    arm_caller = c['arm'].get('caller')
    end_funcs = set(c.get('end', ['_run', '_run_backend']))
    files = tuple(c.get('files', ()))
    evset = c.get('events', 'ebp')
    mode = c.get('mode', 'record')
    K = c.get('k', -1)
    AT = c.get('at')
    action = c.get('action', 'await')
    st = {'armed': False, 'tid': None, 'n': 0, 'done': False, 'fd': None, 'depth_end': None}
    moncache = {}

    def monitored(code):
        r = moncache.get(code)
        if r is None:
            r = code.co_filename.startswith(files)
            moncache[code] = r
        return r

    def publish(name, obj):
        tmp = os.path.join(d, '.%s.%d.tmp' % (name, os.getpid()))
        with open(tmp, 'w') as f:
            json.dump(obj, f)
        os.rename(tmp, os.path.join(d, '%s.%d' % (name, os.getpid())))

    def describe(kind, code, pos, extra=None, pos_is_line=False):
        return {'i': st['n'], 'kind': kind, 'file': os.path.basename(code.co_filename), 'func': code.co_name,
                'line': pos if (kind == 'line' or pos_is_line) else _line_of(code, pos), 'off': pos, 'x': extra, 'mon': monitored(code)}

    def _line_of(code, off):
        try:
            for s, e, ln in code.co_lines():
                if s <= off < e:
                    return ln
        except Exception:
            pass
        return code.co_firstlineno

    def event(kind, code, pos, extra=None, pos_is_line=False):
        i = st['n']
        if mode == 'record':
            os.write(st['fd'], (json.dumps(describe(kind, code, pos, extra, pos_is_line)) + '\n').encode())
            st['n'] = i + 1
            return
        st['n'] = i + 1
        if AT is not None:
            # address the point by code location + occurrence number (robust against unrelated
            # timing-dependent events shifting the global index)
            if kind != AT['kind'] or code.co_name != AT['func'] or os.path.basename(code.co_filename) != AT['file']:
                return
            ln = pos if (kind == 'line' or pos_is_line) else _line_of(code, pos)
            if ln != AT['line'] or (AT.get('x') is not None and extra != AT.get('x')):
                return
            st['occ'] = st.get('occ', 0) + 1
            if st['occ'] != AT['occ']:
                return
        elif i != K:
            return
        info = describe(kind, code, pos, extra, pos_is_line)
        info['i'] = i
        info['pid'] = os.getpid()
        # stack of monitored frames at the landing point (innermost first): lets the oracle
        # decide in which region of the target / run loop the request lands
        stack = []
        try:
            fr = sys._getframe(2)
            while fr is not None and len(stack) < 12:
                if monitored(fr.f_code):
                    stack.append([os.path.basename(fr.f_code.co_filename), fr.f_code.co_name, fr.f_lineno])
                fr = fr.f_back
        except Exception:
            pass
        info['stack'] = stack
        if action == 'await':
            publish('at_point', info)
            t0 = time.monotonic()
            try:
                while time.monotonic() - t0 < c.get('await_s', 20):
                    time.sleep(0.0005)
            except BaseException as e:
                st['done'] = True
                publish('landed', {'exc': type(e).__name__, 'i': i})
                mon.set_events(TOOL, 0)
                raise
            publish('never_arrived', {'i': i})
            st['done'] = True
            mon.set_events(TOOL, 0)
        elif action == 'notify':
            publish('at_point', info)
            st['done'] = True
            mon.set_events(TOOL, 0)
        elif action in ('sigkill', 'sigterm'):
            publish('at_point', info)
            os.kill(os.getpid(), signal.SIGKILL if action == 'sigkill' else signal.SIGTERM)
            if action == 'sigterm':
                time.sleep(5)
        elif action == 'pause':
            publish('at_point', info)
            t0 = time.monotonic()
            st['done'] = True
            mon.set_events(TOOL, 0)
            while time.monotonic() - t0 < c.get('pause_s', 10) and not os.path.exists(os.path.join(d, 'resume')):
                time.sleep(0.001)

    def mine():
        return st['armed'] and not st['done'] and threading.get_ident() == st['tid']

    def arm(code):
        st['armed'] = True
        st['tid'] = threading.get_ident()
        if mode == 'record':
            st['fd'] = os.open(os.path.join(d, 'trace.%d.jsonl' % os.getpid()), os.O_WRONLY | os.O_CREAT | os.O_APPEND, 0o644)
        mon.restart_events()
        if evset == 'ebp':
            mon.set_events(TOOL, E.PY_START | E.PY_RESUME | E.JUMP | E.LINE | E.CALL | E.PY_RETURN | E.PY_UNWIND)
        else:
            mon.set_events(TOOL, E.PY_START | E.LINE | E.PY_RETURN | E.PY_UNWIND)

    def on_start(code, off):
        if not st['armed']:
            if code.co_name != arm_func:
                return mon.DISABLE
            if arm_cls is not None:
                try:
                    slf = sys._getframe(1).f_locals.get('self')
                except Exception:
                    slf = None
                if type(slf).__name__ != arm_cls:
                    return None
            if arm_caller is not None:
                try:
                    if sys._getframe(1).f_back.f_code.co_name != arm_caller:
                        return None
                except Exception:
                    return None
            if c['arm'].get('state_key') is not None:
                # e.g. RemoteWorker.__setstate__ on the server side: state['_from_remote_parent'] is True
                try:
                    if not (sys._getframe(1).f_locals.get('state') or {}).get(c['arm']['state_key']):
                        return None
                except Exception:
                    return None
            if st.get('skip', c.get('skip_arms', 0)) > 0:
                st['skip'] = st.get('skip', c.get('skip_arms', 0)) - 1
                return None
            arm(code)
            if evset == 'ebp':
                event('start', code, off)
            return None
        if not mine():
            return None
        if evset != 'ebp':
            return None
        if monitored(code):
            event('start', code, off)
        else:
            try:
                caller = sys._getframe(1).f_back
            except Exception:
                caller = None
            if caller is not None and monitored(caller.f_code):
                event('start', code, off)
        return None

    def on_resume(code, off):
        if mine() and monitored(code):
            event('resume', code, off)

    def on_jump(code, off, dst):
        # An exception raised from a JUMP callback escapes the frame's own handlers (CPython 3.12),
        # unlike a real asynchronous exception at JUMP_BACKWARD.  So a backward jump is only noted
        # here; the landing point is realised by the LINE event at the jump destination, from which
        # exceptions propagate like ordinary ones.
        if not monitored(code):
            return mon.DISABLE
        if mine() and dst < off:
            st['bj'] = True

    def on_call(code, off, callable_, arg0):
        if not monitored(code):
            return mon.DISABLE
        if mine() and not hasattr(callable_, '__code__') and not isinstance(callable_, type):
            event('ccall', code, off, getattr(callable_, '__name__', None))

    def on_cret(code, off, callable_, arg0):
        if mine() and monitored(code):
            event('cret', code, off, getattr(callable_, '__name__', None))

    def on_line(code, line):
        if not monitored(code):
            return mon.DISABLE
        if mine():
            if evset == 'ebp':
                if st.get('bj'):
                    st['bj'] = False
                    event('jump', code, line, None, True)
            else:
                event('line', code, line)

    def on_exit(code, off, val):
        if st['armed'] and not st['done'] and code.co_name in end_funcs and threading.get_ident() == st['tid'] and monitored(code):
            st['done'] = True
            if mode == 'record':
                os.write(st['fd'], (json.dumps({'kind': 'end', 'func': code.co_name, 'i': st['n']}) + '\n').encode())
            mon.set_events(TOOL, 0)

    mon.use_tool_id(TOOL, 'vlpi')
    mon.register_callback(TOOL, E.PY_START, on_start)
    mon.register_callback(TOOL, E.PY_RESUME, on_resume)
    mon.register_callback(TOOL, E.JUMP, on_jump)
    mon.register_callback(TOOL, E.CALL, on_call)
    mon.register_callback(TOOL, E.C_RETURN, on_cret)
    mon.register_callback(TOOL, E.C_RAISE, on_cret)
    mon.register_callback(TOOL, E.LINE, on_line)
    mon.register_callback(TOOL, E.PY_RETURN, on_exit)
    mon.register_callback(TOOL, E.PY_UNWIND, on_exit)
    mon.set_events(TOOL, E.PY_START)


if _CFG:
    try:
        _install(_CFG)
    except Exception:
        import traceback
        try:
            import json as _j
            with open(os.path.join(_j.loads(_CFG)['dir'], 'inject_error.%d' % os.getpid()), 'w') as _f:
                _f.write(traceback.format_exc())
        except Exception:
            pass
