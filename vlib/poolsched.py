"""I3 - deterministic scheduler shim around the real Pool.run.

The Pool thread's only contacts with the outside world are
mp.connection.wait, time.sleep, worker.enqueue and worker.is_alive.  They are
replaced/wrapped so that a Scheduler decides at each of these sync points what
the (real, gated) PersistentThreadWorkers have done meanwhile.  A schedule is a
deterministic function of its choice sequence, so DFS with re-execution
enumerates small configurations and seeded walks sample larger ones.

At every sync point the conservation invariant of the Pool's bookkeeping is
evaluated in the Pool thread itself (invariant at a hook)."""
import queue
import random
import sys
import threading
import time
import traceback
from types import SimpleNamespace

import multiprocessing.connection  # noqa  (explicit: pool.py only imports multiprocessing)

import pyworkers.pool as pool_mod
from pyworkers.pool import Pool, PoolError
from pyworkers.persistent_thread import PersistentThreadWorker
from pyworkers.utils import Pipe


class HangDetected(BaseException):
    pass


class InvariantBroken(BaseException):
    pass


class WorkerDeath(Exception):
    pass


class Chooser:
    """Replays a prefix of choices, then takes option 0 (DFS) or a random option."""

    def __init__(self, prefix=(), rng=None):
        self.prefix = list(prefix)
        self.rng = rng
        self.trace = []     # (chosen, n_options, label)

    def choose(self, n, label):
        if n <= 1:
            return 0
        i = len(self.trace)
        if i < len(self.prefix):
            c = self.prefix[i]
            if c >= n:
                c = n - 1
        elif self.rng is not None:
            c = self.rng.randrange(n)
        else:
            c = 0
        self.trace.append((c, n, label))
        return c


def f(x):
    return ('res', x)


class SchedWorker(PersistentThreadWorker):
    """Real persistent thread worker + signalling of completed sends / cleanup
    and sync-point reporting of enqueue()/is_alive() calls made by the Pool thread."""
    bare_eof = False

    def __init__(self, *a, sched=None, index=None, **kw):
        self._sched = sched
        self._index = index
        self._sent = threading.Semaphore(0)
        super().__init__(*a, **kw)

    def _get_restart_args(self):
        a, k = super()._get_restart_args()
        k.update(sched=self._sched, index=self._index)
        return a, k

    def _send_result(self, result):
        super()._send_result(result)
        self._sent.release()

    def _cleanup(self):
        if self.bare_eof and not self._cleaned_up:
            self._results_pipe.child_end.close()
            self._cleaned_up = True
            return
        super()._cleanup()

    def enqueue(self, *args, **kwargs):
        s = self._sched
        if s is not None and s.in_pool_thread() and not s.nested:
            s.nested = True
            try:
                s.sync('enqueue', self, args)
            finally:
                s.nested = False
            s.nested = True
            try:
                super().enqueue(*args, **kwargs)
            finally:
                s.nested = False
            s.note_enqueued(self, args)
            return
        return super().enqueue(*args, **kwargs)

    def is_alive(self):
        s = getattr(self, '_sched', None)
        if s is not None and s.in_pool_thread() and not s.nested and s.running:
            s.nested = True
            try:
                s.sync('alive', self, None)
            finally:
                s.nested = False
        return super().is_alive()


class SchedWorkerEOF(SchedWorker):
    bare_eof = True


class Scheduler:
    def __init__(self, cfg, chooser):
        self.cfg = cfg
        self.ch = chooser
        self.pool_thread = None
        self.nested = False
        self.running = False
        self.free_run = False
        self.workers = []
        self.gates = []
        self.held = []          # per worker: inputs really enqueued and not yet answered/lost
        self.alive = []
        self.deaths = 0
        self.drawn = []         # inputs drawn from the source, in order
        self.log = []           # ground-truth event log
        self.states = set()
        self.sync_points = 0
        self.in_hand = None
        self.pool = None
        self.lost = []          # inputs held by a worker when it died (ground truth)
        self.answered = []      # ground truth: inputs answered by workers (result written)

    # ---------------------------------------------------------------- set-up
    def in_pool_thread(self):
        return threading.get_ident() == self.pool_thread

    def make_target(self, i):
        def target(x):
            if self.free_run:
                g = 'answer'
            else:
                g = self.gates[i].get()
            if g == 'raise' or x in self.cfg.get('poison', ()) or x == '__poison__':
                raise WorkerDeath('worker %d dies on %r' % (i, x))
            return f(x)
        return target

    def build(self):
        cfg = self.cfg
        self.pool = Pool(None, retry=cfg.get('retry', True), close_timeout=2)
        self.add_workers(cfg['workers'])

    def add_workers(self, n):
        cfg = self.cfg
        for _ in range(n):
            i = len(self.workers)
            self.gates.append(queue.Queue())
            self.held.append([])
            self.alive.append(True)
            cls = SchedWorkerEOF if i in cfg.get('bare_eof', ()) else SchedWorker
            w = self.pool.add_worker(cls, target=self.make_target(i), sched=self, index=i, set_names=False)
            self.workers.append(w)

    def restart_all(self):
        self.free_run = True            # workers still parked at their gate leave it on their own
        for g in self.gates:
            for _ in range(5):
                g.put('answer')
        try:
            self.pool.restart_workers(timeout=5)
        finally:
            self.free_run = False
        for i in range(len(self.workers)):
            self.gates[i] = queue.Queue()
            self.held[i] = []
            self.alive[i] = True
        self.deaths = 0
        self.log.append(('restart_workers',))

    def source(self, base=0):
        n = self.cfg['inputs']
        per_worker = self.cfg.get('per_worker_callable')
        it = iter(range(base, base + n))
        if per_worker:
            def src(worker):
                x = next(it)        # StopIteration ends the run's input, as documented
                self.drawn.append(x)
                return x
            return src

        def gen():
            for x in it:
                self.drawn.append(x)
                yield x
        return gen()

    # ---------------------------------------------------------------- worker actions
    def answer(self, i):
        x = self.held[i].pop(0)
        self.gates[i].put('answer')
        if x in self.cfg.get('poison', ()):
            self.workers[i]._child.join(10)
            self.alive[i] = False
            self.deaths += 1
            self.lost.append((i, x))
            self.lost.extend((i, y) for y in self.held[i])
            self.log.append(('poisoned', i, x, list(self.held[i])))
            self.held[i] = []
            return False
        if not self.workers[i]._sent.acquire(timeout=10):
            raise RuntimeError('scheduler: answer of worker %d not observed' % i)
        self.answered.append(x)
        self.log.append(('answer', i, x))
        return True

    def die(self, i):
        w = self.workers[i]
        if self.held[i]:
            x = self.held[i].pop(0)
            self.gates[i].put('raise')
            self.lost.append((i, x))
        else:
            x = None
            w._args_pipe.parent_end.put((('__poison__',), {}))
            self.gates[i].put('raise')
        w._child.join(10)
        if w._child.is_alive():
            raise RuntimeError('scheduler: death of worker %d not observed' % i)
        self.lost.extend((i, y) for y in self.held[i])
        self.log.append(('die', i, x, list(self.held[i])))
        self.held[i] = []
        self.alive[i] = False
        self.deaths += 1

    def progress_choices(self, only=None, where=''):
        """For each live worker choose (answers now, die afterwards?)."""
        maxd = self.cfg.get('max_deaths', 0)
        for i in range(len(self.workers)):
            if not self.alive[i] or (only is not None and i != only):
                continue
            q = len(self.held[i])
            opts = [(j, False) for j in range(q + 1)]
            if self.deaths < maxd:
                opts += [(j, True) for j in range(q + 1)]
            c = self.ch.choose(len(opts), '%s:w%d' % (where, i))
            j, d = opts[c]
            for _ in range(j):
                if not self.alive[i] or not self.answer(i):
                    break
            if d and self.alive[i]:
                self.die(i)

    # ---------------------------------------------------------------- monitor
    def pool_frame_locals(self):
        fr = sys._getframe(1)
        while fr is not None:
            if fr.f_code.co_name == 'run' and fr.f_code.co_filename == pool_mod.__file__:
                return fr.f_locals
            fr = fr.f_back
        return None

    def check_conservation(self, kind, in_hand=None):
        p = self.pool
        if not self.cfg.get('retry', True) or not self.cfg.get('return_results', True):
            return
        # locate Pool.run's frame (for `ret`) and the inputs currently "in hand":
        # an input drawn by a try_enqueue activation that has not yet been booked anywhere
        fr = sys._getframe(1)
        loc = None
        hand = []
        while fr is not None:
            if fr.f_code.co_filename == pool_mod.__file__:
                if fr.f_code.co_name == 'try_enqueue' and fr.f_locals.get('has_data'):
                    hand.append(fr.f_locals['inp'][0])
                elif fr.f_code.co_name == 'run':
                    loc = fr.f_locals
                    break
            fr = fr.f_back
        if loc is None or 'ret' not in loc:
            return
        ret = loc['ret']
        ppw = p._pending_per_worker
        pend = [d[0] for lst in ppw.values() for d in lst]
        retries = [d[0] for d in p._retries]
        done = [r[1] for r in ret]
        state = (tuple(sorted((self.index_of(w), len(lst)) for w, lst in ppw.items())), len(retries), tuple(sorted(self.index_of(w) for w in p._closed)), p._depleted)
        self.states.add(state)
        if p._pending != len(pend):
            raise InvariantBroken('_pending=%d but sum of per-worker pending=%d at %s' % (p._pending, len(pend), kind))
        everything = sorted(pend + retries + done + hand)
        if everything != sorted(self.drawn):
            raise InvariantBroken('conservation broken at %s: drawn=%s pending=%s retries=%s results=%s in_hand=%s' % (
                kind, sorted(self.drawn), sorted(pend), sorted(retries), sorted(done), hand))

    def index_of(self, wid):
        for i, w in enumerate(self.workers):
            if w.id == wid:
                return i
        return -1

    # ---------------------------------------------------------------- sync points
    def sync(self, kind, worker, args):
        self.sync_points += 1
        if self.sync_points > self.cfg.get('max_sync', 400):
            raise HangDetected('step bound exceeded (%d sync points)' % self.sync_points)
        i = worker._index
        self.check_conservation('%s(w%d)' % (kind, i))
        if kind == 'enqueue':
            # has the target worker done something / died by now?
            self.progress_choices(only=i, where='enq')
            self.log.append(('pool-enqueue', i, args[0] if args else None, self.alive[i]))

    def note_enqueued(self, worker, args):
        self.held[worker._index].append(args[0])
        self.in_hand = None

    def shim_sleep(self, t):
        if self.in_pool_thread() and self.running:
            self.sync_points += 1
            return
        time.sleep(min(t, 0.01))

    def shim_wait(self, conns, timeout=None):
        if not (self.in_pool_thread() and self.running):
            return multiprocessing.connection.wait(conns, timeout)
        self.sync_points += 1
        if self.sync_points > self.cfg.get('max_sync', 400):
            raise HangDetected('step bound exceeded (%d sync points)' % self.sync_points)
        self.in_hand = None
        self.check_conservation('wait')
        conns = list(conns)
        self.progress_choices(where='wait')
        ready = [c for c in conns if c.poll(0)]
        if not ready:
            # nothing readable: force canonical progress if any is possible
            for i in range(len(self.workers)):
                if self.alive[i] and self.held[i]:
                    self.answer(i)
                    break
            ready = [c for c in conns if c.poll(0)]
        if not ready:
            raise HangDetected('Pool waits for results (pending=%d) but every worker has answered everything it was given or is dead; held=%s alive=%s' % (
                self.pool._pending, self.held, self.alive))
        if len(ready) >= 2:
            opts = ['all', 'rev'] + list(range(len(ready)))
            c = opts[self.ch.choose(len(opts), 'ready')]
            if c == 'rev':
                ready = ready[::-1]
            elif c != 'all':
                ready = [ready[c]]
        self.log.append(('pool-wait', len(conns), len(ready)))
        return ready

    # ---------------------------------------------------------------- one run
    def run(self):
        cfg = self.cfg
        saved = (pool_mod.mp, pool_mod.time)
        pool_mod.mp = SimpleNamespace(connection=SimpleNamespace(wait=self.shim_wait))
        pool_mod.time = SimpleNamespace(sleep=self.shim_sleep)
        out = {'outcome': None}
        try:
            self.build()
            kwargs = dict(worker_extra_pending_inputs=cfg.get('extra', 0), return_results=cfg.get('return_results', True))
            refuse = set(tuple(p) for p in cfg.get('refuse', ()))
            raise_at = {(p[0], p[1]): p[2] for p in cfg.get('raise_at', ())}     # (worker, input) -> how many times the enqueue fails
            if refuse or raise_at:
                def enqueue_fn(worker, x):
                    # the user callback is a contact point of the Pool thread too: count it, so that a
                    # Pool spinning through refusals without ever waiting is seen as what it is
                    self.sync_points += 1
                    if self.sync_points > self.cfg.get('max_sync', 400):
                        raise HangDetected('livelock: step bound exceeded (%d contact points) while the enqueue function keeps refusing' % self.sync_points)
                    if (worker._index, x) in refuse:
                        self.log.append(('refused', worker._index, x))
                        return False
                    if raise_at.get((worker._index, x), 0) > 0:
                        # a transient failure of the hand-over itself; the worker stays alive
                        raise_at[(worker._index, x)] -= 1
                        self.log.append(('enqueue-raised', worker._index, x, bool(self.alive[worker._index])))
                        raise ConnectionError('transient enqueue failure (worker %d, input %r)' % (worker._index, x))
                    worker.enqueue(x)
                    return True
                kwargs['enqueue_fn'] = enqueue_fn
            self.pool_thread = threading.get_ident()
            out['runs'] = []
            for ri in range(cfg.get('runs', 1)):
                base = ri * 100
                if ri > 0:
                    if cfg.get('between') == 'restart':
                        # a further run on the same pool after restart_workers(): same worker objects, new identities
                        self.restart_all()
                    else:
                        # a further run on the same pool: fresh workers are added (as a user would after a failed run)
                        self.add_workers(cfg['workers'])
                    self.drawn, self.lost, self.answered = [], [], []
                    self.sync_points = 0
                    self.log.append(('next-run', ri))
                rec = {'run': ri, 'inputs': list(range(base, base + cfg['inputs']))}
                self.running = True
                try:
                    ret = self.pool.run(self.source(base), **kwargs)
                    rec['outcome'] = 'returned'
                    rec['ret'] = ret
                except PoolError as e:
                    rec['outcome'] = 'PoolError'
                    rec['partial'] = e.partial_results
                except HangDetected as e:
                    rec['outcome'] = 'hang'
                    rec['detail'] = str(e)
                except InvariantBroken as e:
                    rec['outcome'] = 'invariant'
                    rec['detail'] = str(e)
                    rec['tb'] = traceback.format_exc()[-1500:]
                except BaseException as e:  # noqa
                    rec['outcome'] = 'internal:' + type(e).__name__
                    rec['detail'] = repr(e)[:300]
                    rec['tb'] = traceback.format_exc()[-1500:]
                self.running = False
                rec['alive_at_end'] = [w._child.is_alive() for w in self.workers]
                rec['closed_at_end'] = sorted(self.index_of(w) for w in self.pool._closed)
                rec['drawn'], rec['lost'] = list(self.drawn), list(self.lost)
                out['runs'].append(rec)
                self.pool._map_guard = False
                if rec['outcome'] not in ('returned', 'PoolError'):
                    break
            out.update({k: v for k, v in out['runs'][-1].items() if k != 'run'})
        finally:
            self.running = False
            self.free_run = True
            for g in self.gates:
                for _ in range(20):
                    g.put('answer')
            try:
                self.pool._map_guard = False
                self.pool.terminate(timeout=2)
            except BaseException:  # noqa
                pass
            pool_mod.mp, pool_mod.time = saved
        out.update(drawn=list(self.drawn), answered=list(self.answered), lost=list(self.lost), log=self.log, trace=self.ch.trace,
                   sync_points=self.sync_points, states=sorted(self.states))
        return out


def judge(cfg, out):
    """Offline oracle over one scheduled execution (one or more runs on the same pool)."""
    v = []
    for rec in out.get('runs') or [out]:
        sub = dict(out)
        sub.update(rec)
        base = rec.get('run', 0) * 100
        for (prop, key, what) in judge_run(cfg, sub, base):
            if rec.get('run', 0) > 0:
                key += ':later-run-on-same-pool'
                what = 'run %d on the same pool: %s' % (rec['run'] + 1, what)
            v.append((prop, key, what))
    return v


def judge_run(cfg, out, base=0):
    """Oracle for one Pool.run; inputs are base..base+n-1."""
    v = []
    oc = out['outcome']
    retry = cfg.get('retry', True)
    rr = cfg.get('return_results', True)
    n = cfg['inputs']
    poison = set(cfg.get('poison', ()))
    refuse = bool(cfg.get('refuse'))
    if oc == 'hang':
        v.append(('C07', 'hang', out['detail']))
    elif oc == 'invariant':
        v.append(('C07', 'bookkeeping-invariant', out['detail']))
    elif oc.startswith('internal:'):
        v.append(('C07', 'internal-error:' + oc[9:], out.get('detail', '')))
    elif oc == 'returned':
        ret = out.get('ret')
        if not rr:
            if ret is not None:
                v.append(('C08', 'return-value-with-return_results-off', repr(ret)[:100]))
        elif ret is None:
            # Pool.run returns None when it has no usable worker at call time
            pass
        else:
            got = sorted(r[1] for r in ret)
            if retry:
                if len(set(got)) != len(got) or any(x not in range(base, base + n) for x in got):
                    # C08's "only genuine results, at most one per input" does not depend on the retry setting
                    v.append(('C08', 'returned-foreign-or-duplicate-result', 'run returned %s for inputs %d..%d' % (got, base, base + n - 1)))
                if got != list(range(base, base + n)):
                    v.append(('C07', 'result-multiset', 'run returned %s for inputs %d..%d (missing %s, foreign or duplicated %s)' % (
                        got, base, base + n - 1, sorted(set(range(base, base + n)) - set(got)), sorted(x for x in set(got) if got.count(x) > 1 or x not in range(base, base + n)))))
            else:
                if len(set(got)) != len(got):
                    v.append(('C08', 'noretry-duplicate-result', 'results %s' % got))
                if any(x not in range(base, base + n) for x in got):
                    v.append(('C08', 'noretry-foreign-result', 'results %s' % got))
                lost = set(x for _, x in out['lost'])
                # 'or was being handed': the pool's enqueue hit a worker that was already dead
                lost |= set(e[2] for e in out['log'] if e[0] == 'pool-enqueue' and e[3] is False)
                # ... also when the hand-over itself failed on a worker that (ground truth) had died by then
                lost |= set(e[2] for e in out['log'] if e[0] == 'enqueue-raised' and e[3] is False)
                missing = set(out['drawn']) - set(got)
                unjust = sorted(missing - lost)
                if unjust and not refuse:
                    v.append(('C08', 'noretry-missing-unjustified', 'inputs %s are missing from the result but no worker died holding them (lost=%s)' % (unjust, sorted(lost))))
    elif oc == 'PoolError':
        part = out.get('partial')
        if rr and part is not None:
            got = sorted(r[1] for r in part)
            if len(set(got)) != len(got):
                v.append(('C08', 'partial-duplicate-result', 'partial_results %s' % got))
            if any(x not in range(base, base + n) or x in poison for x in got):
                v.append(('C08', 'partial-foreign-result', 'partial_results %s' % got))
        if not refuse and any(out['alive_at_end']):
            alive = [i for i, a in enumerate(out['alive_at_end']) if a]
            v.append(('C08', 'poolerror-with-live-worker', 'PoolError raised while workers %s were alive and not closed (closed=%s)' % (alive, out['closed_at_end'])))
    return v
