"""Generators and oracles shared by C13/C14/C15: generated class hierarchies
(installed in the real module vlib.genmod so pickling by reference works),
object graphs, the canonical walk `canon`, and the per-hook call log."""
import inspect
import sys
import types

import vlib.genmod as genmod
from pyworkers.remote_pickle import SupportRemoteGetState

LOG = genmod.LOG
PRIMS = (bool, int, float, complex, str, bytes, type(None))


def lbl(o):
    try:
        return object.__getattribute__(o, '_lbl')
    except AttributeError:
        return None


# ------------------------------------------------------------------ canon

def canon(g, strip=('_r',)):
    """Pre-order walk numbering every non-primitive object at first visit.
    Captures shape, types, values, sharing and cycles without user __eq__."""
    seen = {}
    keep = []

    def go(o):
        if isinstance(o, PRIMS) and type(o) in PRIMS:
            return (type(o).__name__, repr(o))
        if id(o) in seen:
            return ('ref', seen[id(o)])
        t = type(o)
        if isinstance(o, type) or isinstance(o, (types.FunctionType, types.BuiltinFunctionType)):
            return ('byref', getattr(o, '__module__', None), getattr(o, '__qualname__', repr(o)))
        idx = len(seen)
        seen[id(o)] = idx
        keep.append(o)
        if t in (list, tuple):
            return (t.__name__, idx, [go(x) for x in o])
        if t is dict:
            return ('dict', idx, [(go(k), go(v)) for k, v in o.items()])
        if t in (set, frozenset):
            return (t.__name__, idx, sorted(go(x) for x in o))
        if t.__module__ != 'vlib.genmod':
            return ('val', idx, t.__module__ + '.' + t.__qualname__, repr(o))
        d = {}
        if hasattr(o, '__dict__'):
            d.update(o.__dict__)
        for c in t.__mro__:
            for s in c.__dict__.get('__slots__', ()):
                if s != '__dict__' and hasattr(o, s):
                    d[s] = getattr(o, s)
        items = [(k, go(v)) for k, v in sorted(d.items(), key=lambda kv: kv[0]) if k not in strip]
        extra = None
        if isinstance(o, list):
            extra = [go(x) for x in o]
        return ('obj', idx, t.__qualname__, items, extra)

    return go(g)


def walk_instances(g):
    """All genmod instances reachable from g (each once), pre-order."""
    seen = set()
    out = []

    def go(o):
        if isinstance(o, PRIMS) or id(o) in seen:
            return
        seen.add(id(o))
        t = type(o)
        if t in (list, tuple, set, frozenset):
            for x in o:
                go(x)
        elif t is dict:
            for k, v in o.items():
                go(k)
                go(v)
        elif t.__module__ == 'vlib.genmod':
            out.append(o)
            if hasattr(o, '__dict__'):
                for v in list(o.__dict__.values()):
                    go(v)
            for c in t.__mro__:
                for s in c.__dict__.get('__slots__', ()):
                    if s != '__dict__' and hasattr(o, s):
                        go(getattr(o, s))
            if isinstance(o, list):
                for x in o:
                    go(x)

    go(g)
    return out


# ------------------------------------------------------------------ class factory

def _plain_state(self):
    d = {}
    if hasattr(self, '__dict__'):
        d = dict(self.__dict__)
    slots = {}
    for c in type(self).__mro__:
        for s in c.__dict__.get('__slots__', ()):
            if s != '__dict__' and hasattr(self, s):
                slots[s] = getattr(self, s)
    return d, slots


def _mk_getstate(kind, statekind, owner):
    """kind: 'remote' | 'plain' | 'kwargs'; owner: one-element list holding the defining class."""
    def body(self, remote):
        d, slots = _plain_state(self)
        d.pop('__setstate__', None)
        if remote is not None:
            d['_r'] = remote
        if statekind == 'tuple':
            return (d.get('_lbl', slots.get('_lbl')), d, slots)
        if slots:
            return (d or None, slots)
        return d

    if kind == 'remote':
        def __getstate__(self, remote=False):
            LOG.append((lbl(self), type(self).__name__, 'getstate', remote))
            return body(self, remote)
    elif kind == 'plain':
        def __getstate__(self):
            LOG.append((lbl(self), type(self).__name__, 'getstate', 'plain'))
            return body(self, None)
    elif kind == 'kwargs':
        def __getstate__(self, **kwargs):
            LOG.append((lbl(self), type(self).__name__, 'getstate-kw', dict(kwargs)))
            st = super(owner[0], self).__getstate__(**kwargs)
            return st
    return __getstate__


def _mk_setstate(statekind, raising=False):
    def __setstate__(self, state):
        if statekind == 'tuple':
            l, d, slots = state
        elif isinstance(state, tuple) and len(state) == 2:
            d, slots = state
            d = d or {}
            l = d.get('_lbl', slots.get('_lbl'))
        else:
            d, slots = state, {}
            l = d.get('_lbl') if isinstance(d, dict) else None
        LOG.append((l, type(self).__name__, 'setstate', shallow(state)))
        if raising and isinstance(d, dict) and d.get('boom'):
            raise RuntimeError('setstate boom')
        if hasattr(self, '__dict__'):
            self.__dict__.update(d)
        else:
            for k, v in d.items():
                setattr(self, k, v)
        for k, v in slots.items():
            setattr(self, k, v)
    return __setstate__


def shallow(state):
    """Shallow, identity-free description of a state (children by label)."""
    def one(v):
        if isinstance(v, PRIMS):
            return repr(v)
        if type(v).__module__ == 'vlib.genmod':
            return '<%s #%s>' % (type(v).__name__, lbl(v))
        if type(v) in (list, tuple):
            return [one(x) for x in v]
        if isinstance(v, dict):
            return {repr(k): one(x) for k, x in v.items() if k != '__setstate__'}
        return '<%s>' % type(v).__name__
    return one(state)


_counter = [0]


def make_class(spec, registry):
    """spec keys: base (name|None), marker, getstate (None|'remote'|'plain'|'kwargs'),
    setstate (bool), reduce (bool), newargs (bool), slots (None|tuple), statekind,
    listbase (bool), raising (bool).  Returns the class (may raise Warning)."""
    _counter[0] += 1
    name = 'G%d' % _counter[0]
    bases = []
    if spec.get('base'):
        bases.append(registry[spec['base']])
    elif spec.get('listbase'):
        bases.append(list)
    if spec.get('marker') and not any(type(b) is type(SupportRemoteGetState) for b in bases):
        bases.append(SupportRemoteGetState)
    registry_cls = [None]
    ns = {'__module__': 'vlib.genmod', '__qualname__': name, '_spec': dict(spec)}
    sk = spec.get('statekind', 'dict')
    if spec.get('slots') is not None:
        ns['__slots__'] = tuple(spec['slots'])
    if spec.get('getstate'):
        ns['__getstate__'] = _mk_getstate(spec['getstate'], sk, registry_cls)
    if spec.get('setstate'):
        ns['__setstate__'] = _mk_setstate(sk, spec.get('raising', False))
    if spec.get('reduce'):
        def __reduce__(self):
            LOG.append((lbl(self), type(self).__name__, 'reduce', None))
            d, slots = _plain_state(self)
            return (genmod._rebuild, (type(self), d, slots))
        ns['__reduce__'] = __reduce__
    if spec.get('newargs'):
        def __new__(cls, *a):
            o = super(registry_cls[0], cls).__new__(cls)
            return o

        def __getnewargs__(self):
            LOG.append((lbl(self), type(self).__name__, 'getnewargs', None))
            return (1, 'x')
        ns['__new__'] = __new__
        ns['__getnewargs__'] = __getnewargs__
    cls = type(name, tuple(bases) or (object,), ns)   # may raise Warning (metaclass check)
    registry_cls[0] = cls
    setattr(genmod, name, cls)
    registry[name] = cls
    return cls


def declares_remote(cls):
    """Some class in the MRO (object excluded) defines __getstate__ with a 'remote' parameter."""
    for c in cls.__mro__[:-1]:
        g = c.__dict__.get('__getstate__')
        if g is not None:
            try:
                if 'remote' in inspect.signature(g).parameters:
                    return True
            except (TypeError, ValueError):
                pass
    return False


def mro_opt_in_model(cls):
    """Implementation-independent reading of the opt-in rule.  Returns
    'inconsistent' | 'optin' | 'no'."""
    saw_plain = False
    has_remote = False
    for c in cls.__mro__[:-1]:
        d = c.__dict__
        if d.get('__reduce_ex__') or d.get('__reduce__'):
            has_remote = False
            break
        g = d.get('__getstate__')
        if g is None:
            continue
        params = inspect.signature(g).parameters
        if 'remote' in params:
            if saw_plain:
                return 'inconsistent'
            has_remote = True
        elif any(p.kind == inspect.Parameter.VAR_KEYWORD for p in params.values()):
            continue
        else:
            saw_plain = True
    return 'optin' if has_remote else 'no'


# ------------------------------------------------------------------ instances / graphs

class Labels:
    def __init__(self):
        self.n = 0

    def next(self):
        self.n += 1
        return self.n


def new_instance(cls, labels, **attrs):
    if cls._spec.get('newargs'):
        o = cls.__new__(cls, 1, 'x')
    else:
        o = cls.__new__(cls)
    slots = set()
    for c in cls.__mro__:
        slots.update(c.__dict__.get('__slots__', ()))
    if hasattr(o, '__dict__') or '_lbl' in slots:
        object.__setattr__(o, '_lbl', labels.next())
    for k, v in attrs.items():
        setattr(o, k, v)
    return o


# ------------------------------------------------------------------ shape features (classifier input)

def is_optin(o):
    return type(o).__module__ == 'vlib.genmod' and mro_opt_in_model(type(o)) == 'optin'


def _children(o):
    t = type(o)
    if isinstance(o, PRIMS):
        return []
    if t in (list, tuple, set, frozenset):
        return list(o)
    if t is dict:
        return list(o.keys()) + list(o.values())
    if t.__module__ == 'vlib.genmod':
        out = []
        if hasattr(o, '__dict__'):
            out += list(o.__dict__.values())
        for c in t.__mro__:
            for s in c.__dict__.get('__slots__', ()):
                if s != '__dict__' and hasattr(o, s):
                    out.append(getattr(o, s))
        if isinstance(o, list):
            out += list(o)
        return out
    return []


def contains_optin(o, seen=None):
    seen = set() if seen is None else seen
    if isinstance(o, PRIMS) or id(o) in seen:
        return False
    seen.add(id(o))
    if is_optin(o):
        return True
    return any(contains_optin(c, seen) for c in _children(o))


def features(g):
    """Mechanism-level description of how opt-in objects are arranged in g:
    multi-child (>=2 opt-in direct attributes under one opt-in parent),
    shared-ref (an opt-in object referenced more than once, cycles included),
    indirect-child (opt-in object below an opt-in parent through a container or
    a plain object), nested (opt-in direct attribute of an opt-in object)."""
    feats = set()
    refs = {}
    seen = set()

    def walk(o):
        if isinstance(o, PRIMS):
            return
        if is_optin(o):
            refs[id(o)] = refs.get(id(o), 0) + 1
        if id(o) in seen:
            return
        seen.add(id(o))
        kids = _children(o)
        if is_optin(o):
            direct = [v for v in (o.__dict__.values() if hasattr(o, '__dict__') else []) if is_optin(v)]
            if len(direct) >= 2:
                feats.add('multi-child')
            if len(direct) >= 1:
                feats.add('nested')
            for v in kids:
                if not is_optin(v) and contains_optin(v):
                    feats.add('indirect-child')
        for k in kids:
            walk(k)

    walk(g)
    if any(n >= 2 for n in refs.values()):
        feats.add('shared-ref')
    if not refs:
        feats.add('no-optin')
    return '+'.join(sorted(feats)) or 'flat'


def primary(feats):
    """Coarse mechanism label used in known-finding keys."""
    for f in ('multi-child', 'shared-ref', 'indirect-child', 'nested', 'no-optin'):
        if f in feats.split('+'):
            return f
    return 'flat'
