"""Stateful worker classes for C16 (user_state).  The work is done in run():
a script of child-side assignments followed by an ending."""
from pyworkers.thread import ThreadWorker
from pyworkers.process import ProcessWorker
from pyworkers.remote import RemoteWorker
from pyworkers.persistent_thread import PersistentThreadWorker
from pyworkers.persistent_process import PersistentProcessWorker
from pyworkers.persistent_remote import PersistentRemoteWorker

from vlib.vtargets import mark, Val, CustomError


def decode(v):
    if isinstance(v, dict) and '__val__' in v:
        return Val(*v['__val__'])
    if isinstance(v, dict) and '__slowbox__' in v:
        from vlib.vtargets import SlowBox
        return SlowBox(v['__slowbox__'], 0.8)
    if isinstance(v, dict) and '__onlyhere__' in v:
        from vlib.vtargets import OnlyHere
        return OnlyHere()
    if isinstance(v, list):
        return [decode(x) for x in v]
    return v


class StatefulMixin:
    def run(self, markdir=None, values=(), ending='return', steps=15):
        seen = repr(self.user_state)
        for i, v in enumerate(values):
            self.user_state = decode(v)
            mark(markdir, 'assign', text='%d %r' % (i, decode(v)))
        if ending == 'return':
            return ['seen', seen, len(values)]
        if ending == 'raise':
            raise CustomError('state-raise', len(values))
        if ending == 'return-linger':
            # the work is done and reported, but the child process stays around for a while (a non-daemon thread left behind)
            import threading
            import time
            threading.Thread(target=time.sleep, args=(3,)).start()
            return ['seen', seen, len(values)]
        if ending == 'return-unpicklable':
            # the work succeeded but its result cannot be sent: the child still ends by itself and reports (a failure)
            import threading
            return threading.Lock()
        if ending == 'loop':
            mark(markdir, 'entered')
            x = 0
            for i in range(steps):
                x += i
            return ['seen', seen, x]
        if ending == 'hang':
            mark(markdir, 'hanging')
            x = 0
            while True:      # interruptible, ends only by a terminate request
                x += 1
        raise ValueError(ending)


class StatefulThreadWorker(StatefulMixin, ThreadWorker):
    pass


class StatefulProcessWorker(StatefulMixin, ProcessWorker):
    pass


class StatefulRemoteWorker(StatefulMixin, RemoteWorker):
    pass


class StatefulPersistentThreadWorker(StatefulMixin, PersistentThreadWorker):
    pass


class StatefulPersistentProcessWorker(StatefulMixin, PersistentProcessWorker):
    pass


class StatefulPersistentRemoteWorker(StatefulMixin, PersistentRemoteWorker):
    pass


class SlowCleanupPersistentThreadWorker(PersistentThreadWorker):
    """C17: an incarnation that has recorded its outcome but needs a while to finish."""

    def _cleanup(self):
        import time
        time.sleep(1.5)
        super()._cleanup()
