"""C08 - Pool failure reports are sound: PoolError only when no worker is left;
partial results / no-retry results are genuine, at most one per input, and every
missing input had been handed to a worker that died before answering it.

Shares the scheduler-shim engine with C07 (vlib/poolsched, checks/c07.shard);
the oracle here is poolsched.judge's C08 part: scheduler ground truth (who held
what at each death, who was alive at the raise) vs. the run's outcome."""
from vlib.common import Check, rng
from checks import c07


def run(tier):
    thorough = tier == 'thorough'
    chk = Check('C08', 'exploration', tier,
                'the C07 schedule/death space x retry {on, off} x return_results {on, off} (scheduler shim on real Pool.run; DFS on small configurations, seeded walks elsewhere); '
                'distinct non-trivial = distinct choice sequences; PoolError-with-live-worker is judged only on runs without a refusing enqueue function')
    r = rng('c08')
    shards = []
    for retry, rr in ((False, True), (True, True), (False, False), (True, False)):
        cfgs = c07.dfs_configs('quick', retry=retry, return_results=rr)
        if not thorough:
            cfgs = [c for c in cfgs if c['max_deaths'] or c.get('poison')]
            if (retry, rr) != (False, True):
                cfgs = cfgs[-5:]
        shards += [dict(cfg=c, mode='dfs', budget_s=(300 if thorough else 30)) for c in cfgs]
    nwalk = 160 if thorough else 40
    per = 1000 if thorough else 80
    for i in range(nwalk):
        retry, rr = r.choice([(False, True), (False, True), (True, True), (False, False), (True, False)])
        c = c07.walk_configs(tier, r, 1, retry=retry, return_results=rr)[0]
        c['max_deaths'] = max(1, c['max_deaths'])
        shards.append(dict(cfg=c, mode='walk', limit=per, seed=r.randrange(1 << 30), budget_s=(200 if thorough else 30)))
    c07.run_engine(chk, 'C08', tier, shards)
    real_runs(chk, tier, r)
    chk.assumptions = ['ground truth for "handed to a worker that died before answering" is the scheduler log (inputs held by a worker at its death, inputs whose enqueue hit a dead worker)',
                       'runs with a refusing enqueue function only feed the genuine/at-most-once clauses']
    return chk.finish()


def real_runs(chk, tier, r):
    """Real process/remote/thread pools: retry off + SIGKILL, and retry on with one
    worker that never dies (must complete normally)."""
    import os
    from vlib.common import run_case, pmap, workdir, cleanup, short
    n = 80 if tier == 'thorough' else 12
    specs = []
    for i in range(n):
        kinds = r.choice([['PROCESS', 'PROCESS'], ['PROCESS', 'THREAD'], ['REMOTE', 'PROCESS'], ['PROCESS', 'PROCESS', 'THREAD']])
        inputs = r.randint(5, 40)
        specs.append(dict(seed=r.randrange(1 << 30), kinds=kinds, inputs=inputs, extra=r.randint(0, 2), retry=r.choice([True, False]),
                          poison=[], kill_at=sorted(r.uniform(0.0, 0.15) for _ in range(r.choice([1, 1, 2])))))
    wd = workdir('c08real')

    def one(ix):
        i, sp = ix
        return sp, run_case('checks.c07:real_case', sp, os.path.join(wd, 'r%d' % i), timeout=120)

    for sp, res in pmap(one, list(enumerate(specs)), 8):
        out = res['result']
        chk.case(('real', sp['seed']))
        chk.count('real_pool_runs')
        if out is None:
            chk.inconclusive('real pool run gave no result', {'spec': sp, 'stderr': res['stderr'][-400:]})
            continue
        oc = out.get('outcome')
        chk.count('real_outcome_%s_retry_%s' % (oc, sp['retry']))
        nkill = sum(1 for e in res['events'] if e.get('ev') == 'sigkill')
        chk.count('real_sigkills_delivered', nkill)
        has_thread = 'THREAD' in sp['kinds']
        vals = out.get('ret') if oc == 'returned' else out.get('partial')
        if vals is not None:
            got = sorted(x[1] for x in vals)
            if len(set(got)) != len(got) or any(x not in range(sp['inputs']) for x in got):
                chk.violation('real:duplicate-or-foreign-result', 'real pool %s retry=%s: results %s' % (sp['kinds'], sp['retry'], short(got, 200)), {'spec': sp, 'got': got})
            if oc == 'returned' and not sp['retry']:
                missing = sp['inputs'] - len(got)
                # at most (extra+1) inputs can be lost per killed worker, plus one being handed
                bound = nkill * (sp['extra'] + 2)
                if missing > bound:
                    chk.violation('real:noretry-missing-unjustified', 'real pool %s retry off: %d inputs missing but only %d kills (each can lose at most extra+2=%d)' % (sp['kinds'], missing, nkill, sp['extra'] + 2), {'spec': sp, 'got': got})
        if oc == 'PoolError' and (has_thread or any(out.get('alive', []))):
            # a thread worker is never killed here, so with it the run must not fail
            if any(out.get('alive', [])):
                chk.violation('real:poolerror-with-live-worker', 'real pool %s: PoolError although workers alive=%s' % (sp['kinds'], out.get('alive')), {'spec': sp, 'out': short(out, 500)})
    cleanup(wd)


def replay(spec):
    return c07.replay(spec)
