"""C20 - creating a worker returns a usable worker or raises - it never hangs.

Monitor: the real constructors run against (a) a scripted fake server that cuts
the server side of the hand-shake (control-address message on the data
connection, runtime-info message on the control connection) at every byte with
FIN or RST, refuses the control connection, or completes the hand-shake;
(b) a real server that is SIGKILLed by the injector at each line of its side
of the hand-shake, or asked for an unknown context id; (c) process-kind
children that are SIGKILLed at each line before they report their identity or
whose target module fails to import.  Oracle: the constructor returns or
raises within the hang bound (blocked constructor reported with its stack),
the returned id names a child that was really started, no child is left."""
import os

from vlib.common import Check, rng, run_case, pmap, workdir, cleanup, short

HANG_S = 10.0


def fake_case(spec, log):
    """Runs a batch of fake-server scripts in one process."""
    import logging
    import threading
    import time
    logging.disable(logging.CRITICAL)
    from vlib import vtargets
    from vlib.case import thread_stack
    from vlib.peers import FakeServer
    from vlib.wcase import get_class
    out = []
    for sc in spec['scripts']:
        cls, pers = get_class(sc['cls'])
        fs = FakeServer(sc).start()
        box = {}

        def ctor():
            try:
                box['w'] = cls(vtargets.ret_value, args=[1], host=fs.addr)
            except BaseException as e:  # noqa
                box['exc'] = e

        t = threading.Thread(target=ctor, daemon=True)
        t0 = time.monotonic()
        t.start()
        t.join(HANG_S)
        rec = {'script': sc, 'dur': round(time.monotonic() - t0, 3)}
        if t.is_alive():
            s1 = thread_stack(t.ident)
            time.sleep(0.5)
            rec['outcome'] = 'hang'
            rec['stack'] = s1[:8]
            rec['still'] = t.is_alive()
            rec['frontend_threads'] = [th.name for th in threading.enumerate() if 'remote front' in th.name and th.is_alive()]
        elif 'exc' in box:
            rec['outcome'] = 'raised:' + type(box['exc']).__name__
        else:
            w = box['w']
            rec['outcome'] = 'returned'
            rec['id'] = list(w.id)
            rec['alive'] = w.is_alive()
        rec['fake_log'] = fs.log
        log.ev('fake', rec=rec)
        out.append(rec['outcome'])
    return {'n': len(out)}


def _cmdline(pid):
    try:
        with open('/proc/%d/cmdline' % pid, 'rb') as f:
            return f.read().replace(b'\0', b' ').decode('utf-8', 'replace')
    except OSError:
        return ''


def real_case(spec, log):
    """Real server: unknown context / server killed during the hand-shake (injector)."""
    import glob
    import logging
    import signal
    import threading
    import time
    logging.disable(logging.CRITICAL)
    from vlib import vtargets
    from vlib.case import thread_stack
    from vlib.common import descendants, pid_running
    from vlib.wcase import get_class
    from pyworkers.remote_server import spawn_server
    server = spawn_server(('127.0.0.1', 0))
    cls, pers = get_class(spec['cls'])
    box = {}
    kw = {'host': server.addr}
    if spec['what'] == 'unknown-context':
        kw['context'] = 4711
    try:
        def ctor():
            try:
                box['w'] = cls(vtargets.ret_value if 'context' not in kw else None, **kw)
            except BaseException as e:  # noqa
                box['exc'] = e

        t = threading.Thread(target=ctor, daemon=True)
        t0 = time.monotonic()
        t.start()
        t.join(HANG_S + 4)
        rec = {'what': spec['what'], 'k': spec.get('k'), 'dur': round(time.monotonic() - t0, 3)}
        pts = glob.glob(os.path.join(spec['dir'], 'at_point.*'))
        rec['point'] = open(pts[0]).read()[:300] if pts else None
        if t.is_alive():
            rec['outcome'] = 'hang'
            rec['stack'] = thread_stack(t.ident)[:8]
        elif 'exc' in box:
            rec['outcome'] = 'raised:' + type(box['exc']).__name__
        else:
            w = box['w']
            rec['outcome'] = 'returned'
            rec['alive'] = w.is_alive()
            rec['pid'] = w.pid
            rec['pid_is_real_child'] = (w.pid != os.getpid()) and (pid_running(w.pid) or True)
        rec['server_alive'] = pid_running(server.pid)
        if not rec['server_alive'] and rec['outcome'] != 'returned':
            # the construction failed because the server died: what the server had started for it must not stay behind
            # (every process of this case lives in the case's own session)
            from vlib.common import session_procs
            t1 = time.monotonic()
            left = None
            while time.monotonic() - t1 < 6:
                left = [(st['pid'], st['state'], st.get('comm')) for st in session_procs(os.getsid(0)) if st['pid'] != os.getpid() and 'resource_tracker' not in _cmdline(st['pid'])]
                if not left:
                    break
                time.sleep(0.1)
            rec['left_behind'] = left
        if rec['server_alive']:
            time.sleep(0.3)
            rec['server_children'] = descendants(server.pid)
            # the server must still serve a well-behaved client
            try:
                from pyworkers.remote import RemoteWorker
                pbox = {}

                def probe():
                    try:
                        p = RemoteWorker(vtargets.ret_value, args=[3], host=server.addr)
                        p.wait(10)
                        pbox['r'] = (p.has_error, p.result)
                    except BaseException as e:  # noqa
                        pbox['e'] = repr(e)
                pt = threading.Thread(target=probe, daemon=True)
                pt.start()
                pt.join(10)
                rec['probe'] = 'hang' if pt.is_alive() else repr(pbox)
            except BaseException as e:  # noqa
                rec['probe'] = 'error ' + repr(e)
        log.ev('real', rec=rec)
        return {'ok': True}
    finally:
        try:
            for p in descendants(server.pid) + [server.pid]:
                os.kill(p, signal.SIGKILL)
        except OSError:
            pass


def proc_case(spec, log):
    """Process kind: the child dies before it reports its identity."""
    import glob
    import logging
    import sys
    import threading
    import time
    logging.disable(logging.CRITICAL)
    from vlib import vtargets
    from vlib.case import thread_stack
    from vlib.common import descendants, pid_running
    from vlib.wcase import get_class
    cls, pers = get_class(spec['cls'])
    d = spec['dir']
    target = vtargets.ret_value
    if spec['what'] == 'import-fails-in-child':
        with open(os.path.join(d, 'c20_failmod.py'), 'w') as f:
            f.write('import multiprocessing\nif multiprocessing.current_process().name != "MainProcess":\n    raise ImportError("cannot be imported in a child")\n\ndef target(*a):\n    return 1\n')
        sys.path.insert(0, d)
        import importlib
        target = importlib.import_module('c20_failmod').target
    before = set(descendants(os.getpid()))
    box = {}

    def ctor():
        try:
            box['w'] = cls(target, args=[1]) if not pers else cls(target)
        except BaseException as e:  # noqa
            box['exc'] = e

    t = threading.Thread(target=ctor, daemon=True)
    t0 = time.monotonic()
    t.start()
    t.join(HANG_S + 4)
    rec = {'what': spec['what'], 'k': spec.get('k'), 'dur': round(time.monotonic() - t0, 3)}
    pts = glob.glob(os.path.join(d, 'at_point.*'))
    rec['point'] = open(pts[0]).read()[:300] if pts else None
    new = [p for p in descendants(os.getpid()) if p not in before]
    started = sorted(int(f.rsplit('.', 1)[1]) for f in pts) if pts else []
    if t.is_alive():
        rec['outcome'] = 'hang'
        rec['stack'] = thread_stack(t.ident)[:8]
    elif 'exc' in box:
        rec['outcome'] = 'raised:' + type(box['exc']).__name__
    else:
        w = box['w']
        rec['outcome'] = 'returned'
        rec['alive'] = w.is_alive()
        rec['pid'] = w.pid
        rec['own_pid'] = os.getpid()
        rec['child_pid_known_to_injector'] = started
        try:
            rec['real_child_pid'] = w._child.pid
        except Exception:
            rec['real_child_pid'] = None
        dead = w.wait(5)
        rec['dead_after_wait'] = dead
        rec['has_error'] = w.has_error
    time.sleep(0.2)

    def cmd(pid):
        try:
            return open('/proc/%d/cmdline' % pid, 'rb').read().replace(b'\0', b' ').decode('utf-8', 'replace')
        except OSError:
            return ''
    rec['left_behind'] = [p for p in descendants(os.getpid()) if p not in before and 'resource_tracker' not in cmd(p)] if rec['outcome'] != 'returned' or rec.get('dead_after_wait') else []
    log.ev('proc', rec=rec)
    return {'ok': True}


def run(tier):
    thorough = tier == 'thorough'
    chk = Check('C20', 'fault_enumeration', tier,
                'server side of the hand-shake cut at every byte of the control-address message and of the runtime-info message with FIN or RST, control connection refused, complete hand-shake (fake server, one-shot and persistent remote classes); '
                'real server SIGKILLed at each line of RemoteWorker.__setstate__ and unknown context id; process-kind child SIGKILLed at each line before it reports its identity, target module failing to import in the child; '
                'distinct non-trivial = distinct (class, fault, offset or line, ending)')
    wd = workdir('c20')
    # ---- (a) fake server ------------------------------------------------------
    scripts = []
    from vlib.peers import FakeServer  # noqa
    ctrl_len, info_len = 60, 70   # upper bounds; cuts beyond the message length are clipped by the fake server
    step = 1 if thorough else 3
    for cls in ('RemoteWorker', 'PersistentRemoteWorker'):
        for end in ('fin', 'rst'):
            for cut in list(range(0, 8)) + list(range(8, ctrl_len, step)):
                scripts.append(dict(cls=cls, ctrl_cut=cut, ctrl_end=end))
            for cut in list(range(0, 8)) + list(range(8, info_len, step)):
                for data_also in ((True, False) if thorough else (True,)):
                    scripts.append(dict(cls=cls, info_cut=cut, info_end=end, data_also=data_also, hold=1.0))
        scripts.append(dict(cls=cls, listener='closed', hold=1.0))
        scripts.append(dict(cls=cls, hold=0.2))
    batches = [scripts[i::16] for i in range(16)]

    def fone(ib):
        i, b = ib
        res = run_case('checks.c20:fake_case', {'scripts': b}, os.path.join(wd, 'f%d' % i), timeout=60 + len(b) * (HANG_S + 2))
        cleanup(res['dir'])
        return b, res

    for b, res in pmap(fone, list(enumerate(batches)), 16):
        recs = [e['rec'] for e in res['events'] if e.get('ev') == 'fake']
        if len(recs) < len(b):
            chk.inconclusive('fake-server batch incomplete (%d of %d)' % (len(recs), len(b)), {'stderr': res['stderr'][-400:], 'timed_out': res['timed_out']})
        for rec in recs:
            sc = rec['script']
            step_name = 'ctrl-addr-message' if 'ctrl_cut' in sc else 'runtime-info-message' if 'info_cut' in sc else 'ctrl-refused' if sc.get('listener') == 'closed' else 'complete'
            cut = sc.get('ctrl_cut', sc.get('info_cut'))
            chk.case(('fake', sc['cls'], step_name, cut, sc.get('ctrl_end', sc.get('info_end')), sc.get('data_also')))
            chk.count('fake_server_cases')
            chk.count('fake_outcome_' + rec['outcome'].split(':')[0])
            lens = {l[0]: l[1] for l in rec['fake_log'] if l[0] in ('ctrl-len', 'info-len')}
            complete_msg = (step_name == 'complete') or any(l[0] == 'handshake-complete' for l in rec['fake_log']) or ('info_cut' in sc and cut >= lens.get('info-len', 1 << 30))
            if rec['outcome'] == 'hang':
                where = 'header' if cut is not None and cut < 4 else 'body'
                chk.violation('constructor-hangs:%s:%s' % (sc['cls'].replace('Worker', ''), step_name if step_name in ('ctrl-refused', 'complete') else step_name + '-cut'),
                              '%s against a server that %s: constructor still blocked after %.0f s; stack %s; front-end threads alive: %s' % (
                                  sc['cls'], ('cuts the %s at byte %s (%s)' % (step_name, cut, sc.get('ctrl_end', sc.get('info_end')))) if cut is not None else step_name, HANG_S, rec['stack'][:3], rec.get('frontend_threads')),
                              {'record': rec})
            elif rec['outcome'] == 'returned' and not complete_msg:
                chk.violation('constructor-returned-without-child:%s:%s' % (sc['cls'].replace('Worker', ''), step_name), '%s returned a worker (id %s) although the hand-shake was cut (%s)' % (sc['cls'], rec.get('id'), sc), {'record': rec})
            elif len(chk.samples) < 3:
                chk.sample({'script': sc, 'outcome': rec['outcome'], 'dur': rec['dur']})

    # ---- (b) real server ----------------------------------------------------------
    from vlib import lpi
    jobs = []
    import glob
    import json
    for cls in ('RemoteWorker', 'PersistentRemoteWorker'):
        jobs.append(dict(cls=cls, what='unknown-context'))
        # reference trace of the server's side of the hand-shake (line events from __setstate__ until it returns)
        rec_cfg = lpi.cfg(cls, 'record', events='line', arm_func='__setstate__', end=['__setstate__'])
        rec_cfg['arm']['state_key'] = '_from_remote_parent'
        rdir = os.path.join(wd, 'rec_' + cls)
        run_case('checks.c20:real_case', dict(cls=cls, what='record'), rdir, timeout=90, inject=rec_cfg)
        trace = []
        for f in glob.glob(os.path.join(rdir, 'trace.*.jsonl')):
            t = [json.loads(l) for l in open(f) if l.strip()]
            if len(t) > len(trace):
                trace = t
        cleanup(rdir)
        lines = [e for e in trace if e.get('kind') == 'line' and 'i' in e]
        own = [e for e in lines if e.get('func') == '__setstate__']
        chk.count('handshake_lines_recorded_' + cls, len(lines))
        if len(own) < 10:
            chk.inconclusive('reference trace of the server side of the hand-shake too short (%d own lines)' % len(own), {'cls': cls})
            continue
        # the child process exists from the line after `self._child.start()`: from there on every own line is taken
        import linecache
        started = [k for k, e in enumerate(own) if k and '_child.start()' in linecache.getline(os.path.join(os.environ.get('VERIF_REPO') or '/repo', 'pyworkers', own[k - 1].get('file', '')), own[k - 1].get('line', 0))]
        chk.count('own_lines_after_child_start_' + cls, len(own) - started[0] if started else 0)
        tail_from = started[0] if started else len(own) * 2 // 3
        pick = lines if thorough else (own[:tail_from:3] + own[tail_from:])
        for e in pick:
            jobs.append(dict(cls=cls, what='server-killed-in-handshake', k=e['i'], at=lpi.at_of(trace, e['i']), line=e.get('line'), func=e.get('func')))

    def rone(ij):
        i, sp = ij
        inject = None
        if sp['what'] == 'server-killed-in-handshake':
            inject = lpi.cfg(sp['cls'], 'act', events='line', k=sp['k'], action='sigkill', arm_func='__setstate__', end=['__setstate__'], at=sp.get('at'))
            inject['arm']['state_key'] = '_from_remote_parent'
        res = run_case('checks.c20:real_case', sp, os.path.join(wd, 'r%d' % i), timeout=90, inject=inject)
        cleanup(res['dir'])
        return sp, res

    for sp, res in pmap(rone, list(enumerate(jobs)), 8):
        recs = [e['rec'] for e in res['events'] if e.get('ev') == 'real']
        chk.case(('real', sp['cls'], sp['what'], sp.get('func'), sp.get('line'), sp.get('k')))
        chk.count('real_server_cases')
        if not recs:
            chk.inconclusive('real-server case incomplete', {'spec': sp, 'stderr': res['stderr'][-400:], 'timed_out': res['timed_out']})
            continue
        rec = recs[0]
        chk.count('real_outcome_' + rec['outcome'].split(':')[0])
        if sp['what'] == 'server-killed-in-handshake':
            chk.count('server_kill_point_reached' if rec['point'] else 'server_kill_point_not_reached')
        kindname = sp['cls'].replace('Worker', '')
        if rec['outcome'] == 'hang':
            import json
            line = ''
            if rec['point']:
                try:
                    line = ':line-%s' % json.loads(rec['point']).get('func')
                except ValueError:
                    pass
            chk.violation('constructor-hangs:%s:%s' % (kindname, sp['what']), '%s, %s (k=%s, point %s): constructor blocked; stack %s' % (sp['cls'], sp['what'], sp.get('k'), (rec['point'] or '')[:120], rec['stack'][:3]), {'record': rec})
        elif rec.get('left_behind'):
            chk.violation('child-left-behind-after-failed-construction:%s:%s' % (kindname, sp['what']), '%s, %s (%s line %s): constructor %s but processes started for it are still there after 6 s: %s' % (
                sp['cls'], sp['what'], sp.get('func'), sp.get('line'), rec['outcome'], rec['left_behind']), {'record': rec})
        elif sp['what'] == 'unknown-context':
            if rec['outcome'] == 'returned' and rec.get('alive'):
                chk.violation('unknown-context-worker-alive:%s' % kindname, 'worker in unknown context returned alive', {'record': rec})
            if not rec['server_alive']:
                chk.violation('server-died:%s:unknown-context' % kindname, 'server died on unknown context id', {'record': rec})
            elif 'hang' in str(rec.get('probe')) or "'e'" in str(rec.get('probe')):
                chk.violation('server-unusable-after:%s:unknown-context' % kindname, 'probe after unknown context: %s' % rec.get('probe'), {'record': rec})

    # ---- (c) process kind ----------------------------------------------------------
    pjobs = []
    for cls in ('ProcessWorker', 'PersistentProcessWorker'):
        pjobs.append(dict(cls=cls, what='import-fails-in-child'))
        for k in (range(0, 16) if thorough else range(0, 16, 2)):
            pjobs.append(dict(cls=cls, what='child-killed-before-identity', k=k))

    def pone(ij):
        i, sp = ij
        inject = None
        if sp['what'] == 'child-killed-before-identity':
            inject = lpi.cfg(sp['cls'], 'act', events='line', k=sp['k'], action='sigkill', arm_func='_run', end=['_init_child'])
        res = run_case('checks.c20:proc_case', sp, os.path.join(wd, 'p%d' % i), timeout=90, inject=inject)
        cleanup(res['dir'])
        return sp, res

    for sp, res in pmap(pone, list(enumerate(pjobs)), 8):
        recs = [e['rec'] for e in res['events'] if e.get('ev') == 'proc']
        chk.case(('proc', sp['cls'], sp['what'], sp.get('k')))
        chk.count('process_kind_cases')
        if not recs:
            chk.inconclusive('process case incomplete', {'spec': sp, 'stderr': res['stderr'][-400:], 'timed_out': res['timed_out']})
            continue
        rec = recs[0]
        kindname = sp['cls'].replace('Worker', '')
        chk.count('proc_outcome_' + rec['outcome'].split(':')[0])
        killed_before_identity = bool(rec['point'])
        if rec['outcome'] == 'hang':
            chk.violation('constructor-hangs:%s:%s' % (kindname, sp['what']), '%s %s: constructor blocked; stack %s' % (sp['cls'], sp['what'], rec['stack'][:3]), {'record': rec})
        elif rec['outcome'] == 'returned':
            if rec.get('real_child_pid') is not None and rec['pid'] != rec['real_child_pid']:
                chk.violation('id-does-not-name-the-started-child:%s:%s' % (kindname, sp['what']),
                              '%s %s: constructor returned a worker whose pid is %s (the parent is %s) but the child that was started had pid %s' % (sp['cls'], sp['what'], rec['pid'], rec['own_pid'], rec['real_child_pid']), {'record': rec})
            elif rec.get('dead_after_wait') is not True and (killed_before_identity or sp['what'] == 'import-fails-in-child'):
                chk.violation('dead-child-reported-alive:%s:%s' % (kindname, sp['what']), 'child died during start-up but the worker does not become dead', {'record': rec})
        if rec.get('left_behind'):
            chk.violation('child-left-behind:%s:%s' % (kindname, sp['what']), 'processes %s left behind after %s' % (rec['left_behind'], rec['outcome']), {'record': rec})
    cleanup(wd)
    chk.assumptions = ['hang bound %.0f s on loopback (no network latency); a blocked constructor is reported with its stack and the state of the front-end thread' % HANG_S,
                       'a server that stays connected but silent for ever is outside the statement (no fault in its list produces it)',
                       'after the server itself was SIGKILLed its orphaned children cannot be reaped by the client; the no-child-left clause is checked for the process kind and for servers that survive']
    return chk.finish(min_distinct=40)


def replay(spec):
    import json
    print(json.dumps(spec, indent=1)[:5000])
    return 0
