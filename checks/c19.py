"""C19 - active_children() tracks exactly the live workers.

Monitor: seeded histories of creations (six classes, run / not-run),
completions, terminations and restarts; at quiescent points the multiset
yielded by Worker.active_children() is compared with the created workers whose
is_alive() is True; dropped dead workers must become collectable (weak
references) and the registry must not grow with completed workers;
active_children() is also called from 1-4 threads concurrently."""
import os

from vlib.common import Check, rng, run_case, pmap, workdir, cleanup, short


def case(spec, log):
    import gc
    import logging
    import sys
    import threading
    import time
    import weakref
    logging.disable(logging.CRITICAL)
    from vlib import vtargets
    from vlib.wcase import get_class
    from pyworkers.worker import Worker, autoclose_active_children
    server = None
    workers = {}      # index -> worker (strong refs held by the harness)
    weak = {}         # index -> weakref of dropped workers
    created = 0
    problems = []
    stats = {'checks': 0, 'max_registry': 0, 'created': 0, 'concurrent_calls': 0, 'weak_checked': 0}

    def host_kw(cls):
        nonlocal server
        if 'Remote' in cls:
            if server is None:
                from pyworkers.remote_server import spawn_server
                server = spawn_server(('127.0.0.1', 0))
            return {'host': server.addr}
        return {}

    def quiescent_check(tag):
        # first from fresh plain threads (they inherit the thread identifiers of threads that have finished - workers
        # included), against the liveness established in this thread beforehand
        alive_here = set(id(w) for w in workers.values() if w.is_alive())
        if server is not None and server.is_alive():
            alive_here.add(id(server))
        for _ in range(2):
            box = {}

            def from_helper():
                try:
                    box['got'] = [id(w) for w in Worker.active_children()]
                except BaseException as e:  # noqa
                    box['exc'] = repr(e)[:100]
            ht = threading.Thread(target=from_helper)
            ht.start()
            ht.join(60)
            stats['helper_thread_sweeps'] = stats.get('helper_thread_sweeps', 0) + 1
            if 'exc' in box:
                problems.append({'kind': 'sweep-from-another-thread-raised', 'at': tag, 'example': box['exc']})
            elif set(box.get('got', [])) - alive_here:
                problems.append({'kind': 'dead-worker-yielded-to-another-thread', 'at': tag, 'n': len(set(box['got']) - alive_here)})
            elif alive_here - set(box.get('got', [])):
                problems.append({'kind': 'live-worker-missing-for-another-thread', 'at': tag, 'n': len(alive_here - set(box['got']))})
        got = list(Worker.active_children())
        stats['checks'] += 1
        stats['max_registry'] = max(stats['max_registry'], len(Worker._active_children))
        alive = [w for w in workers.values() if w.is_alive()]
        if server is not None and server.is_alive():
            alive.append(server)   # the spawned server is a ProcessWorker created by this process too
        ids_got = sorted(id(w) for w in got)
        ids_alive = sorted(id(w) for w in alive)
        if len(set(ids_got)) != len(ids_got):
            problems.append({'kind': 'duplicate-entry', 'at': tag, 'n': len(ids_got) - len(set(ids_got))})
        dead_yielded = [repr(w)[:60] for w in got if not w.is_alive()]
        if dead_yielded:
            problems.append({'kind': 'dead-worker-yielded', 'at': tag, 'n': len(dead_yielded), 'example': dead_yielded[0]})
        missing = set(ids_alive) - set(ids_got)
        if missing:
            ex = [repr(w)[:80] for w in alive if id(w) in missing][:2]
            problems.append({'kind': 'live-worker-missing', 'at': tag, 'n': len(missing), 'example': ex})
        foreign = [w for w in got if w.is_alive() and id(w) not in set(ids_alive)]
        if foreign:
            problems.append({'kind': 'unknown-worker-yielded', 'at': tag, 'n': len(foreign)})

    try:
        for step, op in enumerate(spec['ops']):
            name = op[0]
            if name == 'create':
                cls_name, mode = op[1], op[2]
                cls, pers = get_class(cls_name)
                kw = host_kw(cls_name)
                if mode == 'norun':
                    w = cls(vtargets.ret_value, run=False, **kw)
                elif pers:
                    w = cls(vtargets.pecho, **kw)
                    if mode == 'quick':
                        w.enqueue(1)
                        w.close()
                elif mode == 'quick':
                    w = cls(vtargets.ret_value, args=[1], **kw)
                else:
                    w = cls(vtargets.py_loop, args=[None, None], **kw)
                workers[created] = w
                created += 1
                stats['created'] += 1
            elif name == 'finish':
                # let every 'quick' worker die; wait for it
                for w in list(workers.values()):
                    if w._do_run and (getattr(w, '_closed', False) or (not w.is_persistent and w._target is vtargets.ret_value)):
                        w.wait(10)
            elif name == 'terminate':
                live = [i for i, w in workers.items() if w.is_alive()]
                if live:
                    i = live[op[1] % len(live)]
                    w = workers[i]
                    if w.is_thread or w.is_remote:
                        w.terminate(timeout=5, force=False)
                    else:
                        w.terminate(timeout=5)
            elif name == 'restart':
                pers = [i for i, w in workers.items() if w.is_persistent and w._do_run]
                if pers:
                    i = pers[op[1] % len(pers)]
                    workers[i].restart(timeout=2)
            elif name == 'check':
                quiescent_check('step%d' % step)
            elif name == 'drop':
                # drop harness references to dead workers; after a sweep of the registry they must be collectable
                w = None   # do not let the harness's own loop variable keep a worker alive
                dead = [i for i, x in workers.items() if not x.is_alive()]
                x = None
                for i in dead:
                    weak[i] = weakref.ref(workers.pop(i))
                list(Worker.active_children())
                for _ in range(3):
                    gc.collect()
                time.sleep(0.05)
                gc.collect()
                retained = [i for i, r in weak.items() if r() is not None]
                stats['weak_checked'] += len(weak)
                if retained:
                    holders = []
                    o = weak[retained[0]]()
                    in_registry = any(x is o for x in Worker._active_children)
                    problems.append({'kind': 'dead-worker-retained', 'at': 'step%d' % step, 'n': len(retained), 'in_registry': in_registry, 'registry_size': len(Worker._active_children)})
                    del o
                weak.clear()
            elif name == 'concurrent':
                n = op[1]
                old = sys.getswitchinterval()
                sys.setswitchinterval(1e-6)
                errs = []
                res = [None] * n

                def th(i):
                    try:
                        out = []
                        for _ in range(20):
                            out.append(sorted(id(w) for w in Worker.active_children()))
                        res[i] = out
                    except BaseException as e:  # noqa
                        errs.append(repr(e))

                ts = [threading.Thread(target=th, args=(i,)) for i in range(n)]
                for t in ts:
                    t.start()
                for t in ts:
                    t.join()
                sys.setswitchinterval(old)
                stats['concurrent_calls'] += 20 * n
                if errs:
                    problems.append({'kind': 'concurrent-call-raised', 'at': 'step%d' % step, 'example': errs[0]})
                alive_ids = sorted(id(w) for w in workers.values() if w.is_alive())
                for out in res:
                    for o in (out or []):
                        if len(set(o)) != len(o):
                            problems.append({'kind': 'duplicate-entry', 'at': 'concurrent step%d' % step})
                            break
                        if set(alive_ids) - set(o):
                            problems.append({'kind': 'live-worker-missing', 'at': 'concurrent step%d' % step})
                            break
                    else:
                        continue
                    break
            elif name == 'race':
                # workers are created by one thread while other threads sweep the registry
                old = sys.getswitchinterval()
                sys.setswitchinterval(1e-6)
                stop = threading.Event()
                made = []

                def sweeper():
                    while not stop.is_set():
                        list(Worker.active_children())

                def creator():
                    for _ in range(op[1]):
                        made.append(get_class('ThreadWorker')[0](vtargets.py_loop, args=[None, None]))

                sw = [threading.Thread(target=sweeper) for _ in range(2)]
                for t in sw:
                    t.start()
                ct = threading.Thread(target=creator)
                ct.start()
                ct.join()
                stop.set()
                for t in sw:
                    t.join()
                sys.setswitchinterval(old)
                for w in made:
                    workers[created] = w
                    created += 1
                    stats['created'] += 1
                del made[:]
                w = None     # the harness must not keep workers alive through its own temporaries
                quiescent_check('race step%d' % step)
            elif name == 'restart_fail':
                # restart() of a worker that does not stop in time raises - the worker is still alive and has to stay listed
                cls, pers = get_class('PersistentThreadWorker')
                w = cls(vtargets.restart_target)
                w.enqueue('u', kind='swallow1')
                workers[created] = w
                created += 1
                stats['created'] += 1
                time.sleep(0.1)
                try:
                    w.restart(0.2, timeout=0.1)
                    stats['restart_fail_did_not_raise'] = stats.get('restart_fail_did_not_raise', 0) + 1
                except RuntimeError:
                    stats['restart_refused'] = stats.get('restart_refused', 0) + 1
                quiescent_check('restart_fail step%d' % step)
                # the second request gets through: the worker ends and must leave the registry again
                w.terminate(timeout=5, force=False)
                w = None
                quiescent_check('restart_fail-ended step%d' % step)
            elif name == 'restart_race':
                # persistent workers are restarted by one thread while other threads sweep the registry
                pers = [w for w in workers.values() if w.is_persistent and w._do_run]
                if pers:
                    old = sys.getswitchinterval()
                    sys.setswitchinterval(1e-6)
                    stop = threading.Event()
                    errs = []

                    def sweeper2():
                        while not stop.is_set():
                            try:
                                list(Worker.active_children())
                            except BaseException as e:  # noqa
                                errs.append(repr(e)[:120])
                                time.sleep(0.001)

                    def restarter():
                        for k in range(op[1]):
                            try:
                                pers[k % len(pers)].restart(timeout=10)
                            except Exception as e:
                                # restart() may give up on a worker it could not see dying, or trip over the sweepers' is_alive()
                                # calls sharing the worker's control channel: worker objects are not promised to be thread-safe,
                                # that is not the registry's business - the registry is judged below
                                key = 'restart_failed_under_sweep_' + type(e).__name__
                                stats[key] = stats.get(key, 0) + 1

                    sw = [threading.Thread(target=sweeper2) for _ in range(2)]
                    for t in sw:
                        t.start()
                    rt = threading.Thread(target=restarter)
                    rt.start()
                    rt.join()
                    stop.set()
                    for t in sw:
                        t.join()
                    sys.setswitchinterval(old)
                    stats['restarts_under_sweep'] = stats.get('restarts_under_sweep', 0) + op[1]
                    if errs:
                        problems.append({'kind': 'restart-racing-with-sweep-raised', 'at': 'step%d' % step, 'example': errs[0], 'n': len(errs)})
                    quiescent_check('restart_race step%d' % step)
                # the harness must not keep workers alive through its own temporaries (closures included)
                del pers[:]
                pers = sw = rt = None
                w = None
            elif name == 'autoclose':
                with autoclose_active_children():
                    pass
                time.sleep(0.05)
                still = [repr(w)[:60] for w in workers.values() if w.is_alive()]
                if still:
                    # one more chance: autoclose uses 0.1 s timeouts, process/remote children may need a moment
                    time.sleep(1.0)
                    still = [repr(w)[:60] for w in workers.values() if w.is_alive()]
                if still:
                    problems.append({'kind': 'live-worker-after-autoclose', 'at': 'step%d' % step, 'n': len(still), 'example': still[0]})
        quiescent_check('end')
        stats['final_registry'] = len(Worker._active_children)
        stats['final_alive'] = sum(1 for w in workers.values() if w.is_alive())
    finally:
        for w in workers.values():
            try:
                if w.is_alive():
                    if w.is_thread or w.is_remote:
                        w.terminate(timeout=1, force=False)
                    else:
                        w.terminate(timeout=1)
            except BaseException:  # noqa
                pass
        if server is not None:
            try:
                server.terminate(timeout=1, force=True)
            except BaseException:  # noqa
                pass
    return {'problems': problems, 'stats': stats}


THREADS = ['ThreadWorker', 'PersistentThreadWorker']
HEAVY = ['ProcessWorker', 'RemoteWorker', 'PersistentProcessWorker', 'PersistentRemoteWorker']


def gen_history(r, size, heavy):
    ops = []
    for i in range(size):
        x = r.random()
        if x < 0.55:
            cls = r.choice(THREADS if (not heavy or r.random() < 0.6) else HEAVY)
            ops.append(['create', cls, r.choice(['quick', 'quick', 'quick', 'loop', 'norun'])])
        elif x < 0.65:
            ops.append(['finish'])
        elif x < 0.75:
            ops.append(['terminate', r.randrange(100)])
        elif x < 0.80:
            ops.append(['restart', r.randrange(100)])
        elif x < 0.90:
            ops.append(['finish'])
            ops.append(['check'])
        elif x < 0.93:
            ops.append(['concurrent', r.randint(1, 4)])
        elif x < 0.945:
            ops.append(['race', r.randint(3, 8)])
        elif x < 0.955:
            ops.append(['restart_fail'])
        elif x < 0.97 and any(o[0] == 'create' and o[1].startswith('Persistent') and o[2] != 'norun' for o in ops):
            ops.append(['restart_race', r.randint(3, 10)])
        else:
            ops.append(['finish'])
            ops.append(['drop'])
    ops += [['finish'], ['check'], ['drop'], ['check']]
    if r.random() < 0.6:
        ops += [['autoclose'], ['check']]
    return ops


def run(tier):
    thorough = tier == 'thorough'
    chk = Check('C19', 'exploration', tier,
                'seeded histories (up to ~300 operations) of worker creations (six classes; quick, looping, not-run), completions, terminations, restarts, interleaved with quiescent-point comparisons of '
                'Worker.active_children() with the live created workers, weak-reference retention checks after dropping dead workers, concurrent active_children() calls from 1-4 threads, creations and restarts racing with registry sweeps under a 1 microsecond switch interval, and autoclose blocks; '
                'distinct non-trivial = distinct histories')
    r = rng('c19')
    jobs = []
    for i in range(40 if thorough else 10):
        jobs.append(dict(ops=gen_history(r, r.choice([20, 60, 300] if thorough else [20, 60, 150]), heavy=False), heavy=False))
    for i in range(24 if thorough else 6):
        jobs.append(dict(ops=gen_history(r, r.choice([15, 30]), heavy=True), heavy=True))
    # the long-lived-program scenario: many workers come and go
    jobs.append(dict(ops=[['create', 'RemoteWorker', 'loop'], ['race', 20], ['check'], ['race', 20], ['check'], ['autoclose'], ['check']], heavy=True))
    jobs.append(dict(ops=[['create', 'ThreadWorker', 'quick'] for _ in range(300)] + [['finish'], ['check'], ['drop'], ['check']], heavy=False))
    jobs.append(dict(ops=sum([[['create', 'PersistentThreadWorker', 'quick'], ['finish'], ['restart', 0], ['check']] for _ in range(20)], []) + [['drop'], ['check']], heavy=False))
    # restarts racing with registry sweeps, per persistent kind (alive workers and workers that have finished)
    for cls in ('PersistentThreadWorker', 'PersistentProcessWorker', 'PersistentRemoteWorker'):
        n = 40 if cls == 'PersistentThreadWorker' else 6
        jobs.append(dict(ops=[['create', cls, 'loop'], ['create', cls, 'loop'], ['restart_race', n], ['check'], ['restart_race', n], ['check'], ['autoclose'], ['check']], heavy=cls != 'PersistentThreadWorker'))
        jobs.append(dict(ops=[['create', cls, 'quick'], ['create', cls, 'loop'], ['finish'], ['check'], ['restart_race', n], ['check'], ['drop'], ['check'], ['autoclose'], ['check']], heavy=cls != 'PersistentThreadWorker'))
    jobs.append(dict(ops=[['create', 'ThreadWorker', 'quick'] for _ in range(6)] + [['create', 'PersistentThreadWorker', 'loop'], ['finish'], ['check'], ['create', 'ThreadWorker', 'quick'], ['finish'], ['check'], ['drop'], ['check']], heavy=False))
    jobs.append(dict(ops=[['create', 'ThreadWorker', 'loop'], ['restart_fail'], ['check'], ['restart_fail'], ['check'], ['autoclose'], ['check'], ['drop'], ['check']], heavy=False))
    wd = workdir('c19')

    def one(ij):
        i, sp = ij
        res = run_case('checks.c19:case', sp, os.path.join(wd, 'h%d' % i), timeout=(2400 if thorough else 900))
        cleanup(res['dir'])
        return sp, res

    for sp, res in pmap(one, list(enumerate(jobs)), 8):
        out = res['result']
        chk.case(short(sp['ops'], 600))
        chk.count('histories')
        if out is None:
            chk.inconclusive('history gave no result', {'stderr': res['stderr'][-600:], 'timed_out': res['timed_out'], 'events': res['events'][-2:]})
            continue
        st = out['stats']
        for k in ('checks', 'created', 'concurrent_calls', 'weak_checked'):
            chk.count(k, st[k])
        chk.extra['max_registry_size_seen'] = max(chk.extra.get('max_registry_size_seen', 0), st['max_registry'])
        seen = set()
        for p in out['problems']:
            if p['kind'] in seen:
                continue
            seen.add(p['kind'])
            mech = 'with-restart' if any(o[0] == 'restart' for o in sp['ops']) and p['kind'] == 'live-worker-missing' else 'any'
            chk.violation('%s:%s' % (p['kind'], mech), 'history of %d ops (%d workers created): %s' % (len(sp['ops']), st['created'], p), {'problem': p, 'ops': sp['ops'][:80], 'stats': st})
        if not out['problems'] and len(chk.samples) < 3:
            chk.sample({'ops': sp['ops'][:14], 'stats': st})
    cleanup(wd)
    chk.assumptions = ['quiescent point = all requested completions waited for; is_alive() of the created workers is the reference',
                       'retention is judged by weak references after active_children() and gc.collect()']
    return chk.finish(min_distinct=5)


def replay(spec):
    import json
    print(json.dumps(spec, indent=1)[:5000])
    return 0
