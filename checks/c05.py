"""C05 - persistent workers process each enqueue exactly once, in order, with merged args.

Monitor: seeded histories of enqueue/next_result/results_iter/call/close/wait
on real persistent thread/process/remote workers; every enqueue carries a
unique id.  Offline oracle: a 15-line sequential model (merge rule + pristine
defaults) replayed against the recorded history."""
import copy
import os

from vlib.common import Check, rng, run_case, pmap, workdir, cleanup, short

CLASSES = ['PersistentThreadWorker', 'PersistentProcessWorker', 'PersistentRemoteWorker']
VALS = [None, 0, 1, 'a', '', [1], {'z': 1}, [[2], 3], -2.5]


def kind_of(cls):
    return cls.replace('Worker', '')


# ---------------------------------------------------------------- model (the reference semantics of the statement)

def t_echo(*a, **k):
    return ['echo', list(a), sorted(k.items(), key=lambda kv: kv[0])]


def t_mutate(*a, **k):
    seen = copy.deepcopy(['mut', list(a), sorted(k.items(), key=lambda kv: kv[0])])
    for x in a:
        if isinstance(x, list):
            x.append('M')
        if isinstance(x, dict):
            x['M'] = 1
    for x in k.values():
        if isinstance(x, list):
            x.append('M')
    return seen


def t_slowecho(*a, **k):
    import time
    time.sleep(0.06)
    return ['echo', list(a), sorted(k.items(), key=lambda kv: kv[0])]


def t_none(*a, **k):
    return None


def t_falsy(*a, **k):
    return [0, '', [], {}][k.get('uid', 0) % 4]


def t_raise_on(*a, **k):
    if k.get('boom'):
        raise ValueError('target raises', k.get('uid'))
    return ['ok', k.get('uid')]


def t_large(*a, **k):
    return ['large', k.get('uid'), 'x' * 70000]


def t_huge(*a, **k):
    # far beyond a pipe buffer and a TCP segment; arguments of that size are digested, not echoed
    import hashlib
    return ['huge', k.get('uid'), [hashlib.sha1(x.encode()).hexdigest() if isinstance(x, str) and len(x) > 1000 else x for x in a], 'y' * 400000]


TARGETS = {'huge': t_huge, 'echo': t_echo, 'slowecho': t_echo, 'mutate': t_mutate, 'none': t_none, 'falsy': t_falsy, 'large': t_large, 'raise_on': t_raise_on}


def shrink(v):
    """Huge payloads are logged and compared through their length and digest."""
    import hashlib
    if isinstance(v, (list, tuple)) and len(v) == 4 and v[0] == 'huge' and isinstance(v[3], str):
        return ['huge', v[1], v[2], ['len', len(v[3]), hashlib.sha1(v[3].encode()).hexdigest()]]
    return v


def model_value(tname, defaults, default_kw, extra, extra_kw):
    merged = list(extra) + list(defaults[len(extra):])
    kw = dict(default_kw)
    kw.update(extra_kw)
    return shrink(TARGETS[tname](*copy.deepcopy(merged), **copy.deepcopy(kw)))


# ---------------------------------------------------------------- case

def case(spec, log):
    import logging
    import queue
    logging.disable(logging.CRITICAL)
    from vlib.case import Bounded, HANG, Raised
    from vlib.wcase import get_class
    import checks.c05 as me
    from pyworkers.persistent import WorkerClosedError
    bounded = Bounded(log)
    cls, _ = get_class(spec['cls'])
    server = None
    kw = {}
    if 'Remote' in spec['cls']:
        from pyworkers.remote_server import spawn_server
        server = spawn_server(('127.0.0.1', 0))
        kw['host'] = server.addr
    defaults = spec['defaults']
    args = tuple(defaults) if spec['tuple_defaults'] else list(defaults)
    try:
        w = bounded('create', lambda: cls(getattr(me, 't_' + spec['target']), args=args, kwargs=dict(spec['default_kw']), **kw), 60)
        if w is HANG or isinstance(w, Raised):
            return {'fatal': 'create'}

        def norm(v):
            return v

        sched = {'closed': False, 'held': 0}
        if spec.get('adversarial'):
            # worst-case scheduling of the consumer: once the worker has been closed (it will finish and die by itself),
            # the consuming thread is not scheduled again after any of the library's own steps (liveness check,
            # non-blocking / blocking read of the result endpoint) until the worker is really gone
            import time as _t
            from vlib.common import pid_running
            own = w.pid == os.getpid()
            child = w._child

            def gone():
                return (not child.is_alive()) if own else (not pid_running(w.pid))

            def hold():
                if sched['closed'] and not gone():
                    sched['held'] += 1
                    t0 = _t.monotonic()
                    while _t.monotonic() - t0 < 8 and not gone():
                        _t.sleep(0.002)
                    _t.sleep(0.05)      # the last results and the end marker are in the pipe by now

            def wrap(obj, name):
                orig = getattr(obj, name)

                def wrapped(*a, **k):
                    try:
                        return orig(*a, **k)
                    finally:
                        hold()
                setattr(obj, name, wrapped)

            wrap(w, 'is_alive')
            ep = w.results_endpoint
            for nm in ('get_nowait', 'poll'):
                if hasattr(ep, nm):
                    wrap(ep, nm)

        for i, op in enumerate(spec['ops']):
            name = op[0]
            if name == 'enq':
                r = bounded('enq', lambda: w.enqueue(*op[1], **op[2]), 30)
                log.ev('op', i=i, op='enq', outcome=('ok' if r is None else 'hang' if r is HANG else 'raised:' + type(r.exc).__name__))
            elif name == 'next':
                r = bounded('next', lambda: w.next_result(), 30)
                log.ev('op', i=i, op='next', outcome=('hang' if r is HANG else 'raised:' + type(r.exc).__name__ if isinstance(r, Raised) else 'value'), value=(None if r is HANG or isinstance(r, Raised) else me.shrink(r)))
            elif name == 'iter':
                r = bounded('iter', lambda: list(w.results_iter(op[1])), 30)
                log.ev('op', i=i, op='iter', n=op[1], outcome=('hang' if r is HANG else 'raised:' + type(r.exc).__name__ if isinstance(r, Raised) else 'values'), value=(None if r is HANG or isinstance(r, Raised) else [me.shrink(x) for x in r]))
            elif name == 'call':
                r = bounded('call', lambda: w.call(*op[1], **op[2]), 30)
                log.ev('op', i=i, op='call', outcome=('hang' if r is HANG else 'raised:' + type(r.exc).__name__ if isinstance(r, Raised) else 'value'), value=(None if r is HANG or isinstance(r, Raised) else me.shrink(r)))
            elif name == 'close':
                r = bounded('close', lambda: w.close(), 30)
                sched['closed'] = True
                log.ev('op', i=i, op='close', outcome=('ok' if r is None else 'hang' if r is HANG else 'raised:' + type(r.exc).__name__))
            elif name == 'wait':
                r = bounded('wait', lambda: w.wait(), 45)
                log.ev('op', i=i, op='wait', outcome=('hang' if r is HANG else repr(r) if not isinstance(r, Raised) else 'raised:' + type(r.exc).__name__))
            if r is HANG:
                return {'fatal': 'hang at op %d' % i}
        # epilogue: wait, drain, check the end of the stream
        sched['closed'] = False     # no more delays: wait() itself closes the worker
        if spec.get('adversarial'):
            log.ev('adversarial', consumer_held=sched['held'])
        r = bounded('final_wait', lambda: w.wait(), 45)
        log.ev('final_wait', outcome=('hang' if r is HANG else repr(r) if not isinstance(r, Raised) else 'raised:' + type(r.exc).__name__))
        if r is HANG:
            return {'fatal': 'final wait hang'}
        r = bounded('drain', lambda: list(w.results_iter()), 30)
        log.ev('drain', outcome=('hang' if r is HANG else 'raised' if isinstance(r, Raised) else 'values'), value=(None if r is HANG or isinstance(r, Raised) else [me.shrink(x) for x in r]))
        r = bounded('after_end', lambda: w.next_result(), 15)
        log.ev('after_end', empty=(isinstance(r, Raised) and isinstance(r.exc, queue.Empty)), hang=(r is HANG))
        r = bounded('after_end2', lambda: list(w.results_iter()), 15)
        log.ev('after_end2', value=(None if r is HANG or isinstance(r, Raised) else r), hang=(r is HANG))
        r = bounded('enq_after_death', lambda: w.enqueue(1, uid=-1), 15)
        log.ev('enq_after_death', closed_error=(isinstance(r, Raised) and isinstance(r.exc, WorkerClosedError)), other=(None if isinstance(r, Raised) else repr(r)))
        he, res, err = w.has_error, w.result, w.error
        log.ev('final', has_error=he, result=res if isinstance(res, (int, type(None))) else repr(res), error=(repr(err) if err is not None else None))
        return {'ok': True}
    finally:
        if server is not None:
            try:
                server.terminate(timeout=1, force=True)
            except BaseException:  # noqa
                pass


# ---------------------------------------------------------------- generator

def gen_history(r, cls):
    nd = r.randint(0, 3)
    defaults = [r.choice(VALS) for _ in range(nd)]
    default_kw = {k: r.choice(VALS) for k in r.sample(['p', 'q'], r.randint(0, 2))}
    target = r.choice(['echo', 'echo', 'echo', 'mutate', 'mutate', 'none', 'falsy', 'large', 'huge'])
    ops = []
    uid = 0
    outstanding = 0
    closed = False
    unread_large = 0
    n_enq = r.randint(0, 8)
    while True:
        choices = []
        if not closed and uid < n_enq:
            choices += ['enq', 'enq', 'enq']
        if outstanding:
            choices += ['next', 'iter']
        if not closed and not outstanding and uid < n_enq:
            choices += ['call']
        if not closed and r.random() < 0.15:
            choices += ['close']
        if closed and r.random() < 0.5:
            choices += ['enq_closed']
        if not choices or (uid >= n_enq and not outstanding and r.random() < 0.6):
            break
        c = r.choice(choices)
        if c in ('enq', 'call', 'enq_closed'):
            arity = r.choice([0, 1, nd, nd, nd + 1, max(0, nd - 1)])
            extra = [r.choice(VALS) for _ in range(arity)]
            if target == 'huge' and extra and r.random() < 0.5:
                extra[0] = 'z' * 300000
            extra_kw = {k: r.choice(VALS) for k in r.sample(['p', 'q', 's'], r.randint(0, 2))}
            uid += 1
            extra_kw['uid'] = uid
            if c == 'enq_closed':
                ops.append(['enq', extra, extra_kw, 'expect-closed'])
                uid -= 1
                continue
            if target in ('large', 'huge') and unread_large >= 0 and c == 'enq' and outstanding >= 1:
                # documented precondition of wait(): keep unread result bytes below the pipe capacity
                ops.append(['next'])
                outstanding -= 1
            ops.append([c, extra, extra_kw])
            if c == 'enq':
                outstanding += 1
        elif c == 'next':
            ops.append(['next'])
            outstanding -= 1
        elif c == 'iter':
            k = r.randint(1, outstanding)
            ops.append(['iter', k])
            outstanding -= k
        elif c == 'close':
            ops.append(['close'])
            closed = True
    if target in ('large', 'huge'):
        while outstanding:
            ops.append(['next'])
            outstanding -= 1
    return dict(cls=cls, defaults=defaults, tuple_defaults=r.random() < 0.35, default_kw=default_kw, target=target, ops=ops)


def judge(chk, spec, res):
    cls = spec['cls']
    evs = res['events']
    ops = [e for e in evs if e.get('ev') == 'op']
    fatal = (res['result'] or {}).get('fatal') if res['result'] else 'no-result'
    hangs = [e for e in evs if e.get('ev') == 'hang']
    expected = []   # model values of accepted enqueues, in order
    delivered = []
    probs = []
    closed = False
    for i, op in enumerate(spec['ops']):
        if i >= len(ops):
            break
        e = ops[i]
        if op[0] == 'enq':
            if len(op) > 3 or closed:
                if e['outcome'] != 'raised:WorkerClosedError':
                    probs.append('enqueue-after-close-%s' % e['outcome'])
                continue
            if e['outcome'] != 'ok':
                probs.append('enqueue-%s' % e['outcome'])
                break
            expected.append(model_value(spec['target'], spec['defaults'], spec['default_kw'], op[1], op[2]))
        elif op[0] == 'call':
            if e['outcome'] != 'value':
                probs.append('call-%s' % e['outcome'])
                break
            want = model_value(spec['target'], spec['defaults'], spec['default_kw'], op[1], op[2])
            expected.append(want)
            delivered.append(e['value'])
        elif op[0] == 'next':
            if e['outcome'] != 'value':
                probs.append('next_result-%s' % e['outcome'])
                break
            delivered.append(e['value'])
        elif op[0] == 'iter':
            if e['outcome'] != 'values':
                probs.append('results_iter-%s' % e['outcome'])
                break
            if len(e['value']) != op[1]:
                probs.append('results_iter-short')
            delivered += e['value']
        elif op[0] == 'close':
            closed = True
            if e['outcome'] != 'ok':
                probs.append('close-%s' % e['outcome'])
    if fatal and not probs:
        if hangs:
            probs.append('blocked-%s' % hangs[0]['name'])
        else:
            chk.inconclusive('case incomplete: %s' % fatal, {'spec': spec, 'stderr': res['stderr'][-400:]})
            return
    if not probs:
        dr = [e for e in evs if e.get('ev') == 'drain']
        if dr and dr[0]['outcome'] == 'values':
            delivered += dr[0]['value']
        elif dr:
            probs.append('drain-%s' % dr[0]['outcome'])
        norm = lambda v: repr(_jsonish(v))
        if [norm(x) for x in delivered] != [norm(x) for x in expected]:
            if len(delivered) != len(expected):
                probs.append('delivered-%s-than-enqueued' % ('more' if len(delivered) > len(expected) else 'fewer'))
            elif sorted(map(norm, delivered)) == sorted(map(norm, expected)):
                probs.append('results-out-of-order')
            else:
                k = next(i for i in range(len(expected)) if norm(delivered[i]) != norm(expected[i]))
                probs.append('wrong-value-for-input')
                spec = dict(spec, first_bad=dict(index=k, got=short(delivered[k], 200), want=short(expected[k], 200)))
        fin = [e for e in evs if e.get('ev') == 'final']
        if fin:
            if fin[0]['has_error'] is not False:
                probs.append('worker-ended-with-error')
            elif fin[0]['result'] != len(expected):
                probs.append('result-count-mismatch')
        ae = [e for e in evs if e.get('ev') == 'after_end']
        if ae and not ae[0]['empty']:
            probs.append('stream-does-not-end-with-Empty')
        ae2 = [e for e in evs if e.get('ev') == 'after_end2']
        if ae2 and ae2[0]['value'] != []:
            probs.append('stream-ends-twice')
        ed = [e for e in evs if e.get('ev') == 'enq_after_death']
        if ed and not ed[0]['closed_error']:
            probs.append('enqueue-after-death-not-rejected')
    chk.count('enqueues_checked', len(expected))
    if probs:
        fin = [e for e in evs if e.get('ev') == 'final']
        mech = 'tuple-defaults' if spec['tuple_defaults'] else 'list-defaults'
        chk.violation('%s:%s:%s:%s' % (probs[0], kind_of(cls), spec['target'], mech),
                      '%s target=%s defaults=%s%s kw=%s: %s; final=%s' % (cls, spec['target'], 'tuple' if spec['tuple_defaults'] else 'list', spec['defaults'], spec['default_kw'], ', '.join(probs), fin[:1]),
                      {'spec': spec, 'ops_observed': ops[:12], 'final': fin, 'hangs': hangs[:1], 'stderr': res['stderr'][-300:]})
    elif len(chk.samples) < 4 and len(expected) >= 3:
        chk.sample({'cls': cls, 'target': spec['target'], 'defaults': spec['defaults'], 'tuple_defaults': spec['tuple_defaults'], 'default_kw': spec['default_kw'], 'ops': spec['ops'][:8], 'delivered': short(delivered, 300)})


def _jsonish(v):
    if isinstance(v, tuple):
        return [_jsonish(x) for x in v]
    if isinstance(v, list):
        return [_jsonish(x) for x in v]
    if isinstance(v, dict):
        return {str(k): _jsonish(x) for k, x in v.items()}
    return v


def run(tier):
    thorough = tier == 'thorough'
    chk = Check('C05', 'exploration', tier,
                'seeded histories (<= 8 enqueues) over {enqueue(args, kwargs), next_result, results_iter(n), call, close, wait, enqueue-after-close} x default args (list or tuple, length 0-3) x default kwargs '
                'x per-enqueue arity (fewer/equal/more than defaults) x targets (echo, argument-mutating, None/falsy/70 KB/400 KB results, 300 KB arguments) x thread/process/remote; every enqueue carries a unique id; '
                'a share of the histories reads after close() under worst-case scheduling of the consumer (held after each liveness check / endpoint probe until the worker is gone); oracle = sequential model (merge rule, pristine defaults); distinct non-trivial = distinct histories with >= 1 enqueue')
    r = rng('c05')
    n = 700 if thorough else 50
    jobs = [gen_history(r, cls) for cls in CLASSES for _ in range(n)]
    # results consumed while the worker is finishing: close() first, then read under worst-case scheduling of the consumer
    for cls in CLASSES:
        for k in range(12 if thorough else 4):
            nin = r.randint(1, 5)
            ops = [['enq', [r.choice(VALS)], {'uid': u + 1}] for u in range(nin)] + [['close']]
            left = nin
            while left:
                if r.random() < 0.5:
                    ops.append(['next'])
                    left -= 1
                else:
                    m = r.randint(1, left)
                    ops.append(['iter', m])
                    left -= m
            jobs.append(dict(cls=cls, defaults=[r.choice(VALS)], tuple_defaults=False, default_kw={}, target=r.choice(['slowecho', 'slowecho', 'echo']), ops=ops, adversarial=True))
    for j in jobs:
        if not j.get('adversarial') and any(o[0] == 'close' for o in j['ops']) and r.random() < 0.5:
            j['adversarial'] = True
    wd = workdir('c05')

    def one(ij):
        i, sp = ij
        res = run_case('checks.c05:case', sp, os.path.join(wd, 'h%d' % i), timeout=240)
        cleanup(res['dir'])
        return sp, res

    for sp, res in pmap(one, list(enumerate(jobs)), 12):
        nenq = sum(1 for o in sp['ops'] if o[0] in ('enq', 'call'))
        chk.case((sp['cls'], short(sp, 400)) if nenq else None)
        chk.count('histories')
        chk.count('target_' + sp['target'])
        chk.count('tuple_defaults' if sp['tuple_defaults'] else 'list_defaults')
        judge(chk, sp, res)
    djobs = [dict(cls=cls, how=how, ok_before=k) for cls in CLASSES for how in (('raise',) if 'Thread' in cls else ('raise', 'kill')) for k in ((0, 2) if not thorough else (0, 1, 3))]

    def done(ij):
        i, sp = ij
        res = run_case('checks.c05:death_case', sp, os.path.join(wd, 'd%d' % i), timeout=180)
        cleanup(res['dir'])
        return sp, res

    for sp, res in pmap(done, list(enumerate(djobs)), 8):
        ev = [e for e in res['events'] if e.get('ev') == 'death']
        chk.case(('death', sp['cls'], sp['how'], sp['ok_before']))
        chk.count('unobserved_death_cases')
        if not ev:
            chk.inconclusive('death case incomplete', {'spec': sp, 'stderr': res['stderr'][-400:]})
            continue
        e = ev[0]
        probs = []
        if e['outcome'] != 'raised:WorkerClosedError':
            probs.append('enqueue-after-unobserved-death-%s' % e['outcome'])
        if sp['how'] == 'raise' and e['delivered'] != sp['ok_before']:
            probs.append('delivered-%s-results-for-%d-answered-inputs' % (e['delivered'], sp['ok_before']))
        if probs:
            chk.violation('%s:%s:died-by-%s' % (probs[0].split(':')[0] if probs[0].startswith('delivered') else probs[0], kind_of(sp['cls']), sp['how']),
                          '%s died by %s after %d answered inputs, nobody looked at it: %s' % (sp['cls'], sp['how'], sp['ok_before'], ', '.join(probs)), {'spec': sp, 'event': e})
    cleanup(wd)
    chk.assumptions = ['the documented precondition of wait() is respected: large results are consumed before a blocking wait()',
                       'values are compared after normalising tuples to lists (JSON transport of the log)']
    return chk.finish(min_distinct=30)


def replay(spec):
    import json
    print(json.dumps(spec, indent=1)[:5000])
    return 0


def death_case(spec, log):
    """The worker dies on its own (target raises / child killed); the parent does NOT look at it through
    the API before it enqueues again: that enqueue must be refused with WorkerClosedError."""
    import logging
    import signal
    import time
    logging.disable(logging.CRITICAL)
    from vlib.case import Bounded, HANG, Raised
    from vlib.common import pid_running
    from vlib.wcase import get_class
    import checks.c05 as me
    from pyworkers.persistent import WorkerClosedError
    bounded = Bounded(log)
    cls, _ = get_class(spec['cls'])
    server = None
    kw = {}
    if 'Remote' in spec['cls']:
        from pyworkers.remote_server import spawn_server
        server = spawn_server(('127.0.0.1', 0))
        kw['host'] = server.addr
    try:
        w = cls(me.t_raise_on, **kw)
        own = w.pid == os.getpid()
        for i in range(spec['ok_before']):
            w.enqueue(uid=i + 1)
        if spec['how'] == 'raise':
            w.enqueue(uid=99, boom=True)
        # establish the death WITHOUT touching the public API of the worker
        t0 = time.monotonic()
        if own:
            w._child.join(20)
        else:
            if spec['how'] == 'kill':
                time.sleep(0.2)
                os.kill(w.pid, signal.SIGKILL)
            while pid_running(w.pid) and time.monotonic() - t0 < 20:
                time.sleep(0.005)
        time.sleep(0.4 if 'Remote' in spec['cls'] else 0.05)
        r = bounded('enqueue_after_unobserved_death', lambda: w.enqueue(uid=100), 20)
        outcome = 'accepted' if r is None else 'hang' if r is HANG else 'raised:' + type(r.exc).__name__
        got = bounded('drain', lambda: list(w.results_iter()), 30)
        n = None if got is HANG or isinstance(got, Raised) else len(got)
        bounded('wait', lambda: w.wait(10), 30)
        log.ev('death', outcome=outcome, delivered=n, has_error=w.has_error)
        return {'ok': True}
    finally:
        if server is not None:
            try:
                server.terminate(timeout=1, force=True)
            except BaseException:  # noqa
                pass
