"""C04 - wait/terminate are bounded, truthful, idempotent - even on unresponsive children.

(A) real workers running cooperative / exception-swallowing / blocked-in-sleep /
    GIL-held-in-C / SIGSTOPped targets get wait(t) and terminate(t, force)
    calls; every call is logged with duration, return value and the OS state
    of the child pid right after the return.
(B) call histories (all sequences of length <= 4 over wait/terminate/is_alive/
    close) on dead-by-return, dead-by-error, killed and never-run workers."""
import itertools
import os

from vlib.common import Check, rng, run_case, pmap, workdir, cleanup, short

SLACK = 10.0
OPS = ['wait0', 'wait02', 'term0', 'term02', 'alive', 'close']
KINDS = ['ThreadWorker', 'ProcessWorker', 'RemoteWorker', 'PersistentThreadWorker', 'PersistentProcessWorker', 'PersistentRemoteWorker']


def kind_of(cls):
    return cls.replace('Worker', '')


# ---------------------------------------------------------------- (A) unresponsive children

def live_case(spec, log):
    import logging
    import signal
    import time
    logging.disable(logging.CRITICAL)
    from vlib import vtargets
    from vlib.case import Bounded, HANG, Raised
    from vlib.common import pid_running, proc_stat
    from vlib.wcase import get_class
    bounded = Bounded(log)
    cls, pers = get_class(spec['cls'])
    d = spec['dir']
    md = os.path.join(d, 'marks')
    os.makedirs(md, exist_ok=True)
    server = None
    kw = {}
    if 'Remote' in spec['cls']:
        from pyworkers.remote_server import spawn_server
        server = spawn_server(('127.0.0.1', 0))
        kw['host'] = server.addr
    beh = spec['behaviour']
    import signal as _signal
    got_sigterm = []

    def on_sigterm(signum, frame):
        # a worker call must never take the calling process down with it
        got_sigterm.append(time.monotonic())
        log.ev('caller_signalled', sig='SIGTERM')
    _signal.signal(_signal.SIGTERM, on_sigterm)
    target, args = {'linger': ('return_and_linger', [md, 60]), 'linger-stopped': ('return_and_linger', [md, 60, 0.5]), 'slowres': ('partial_on_terminate', [md, 0.4]), 'coop': ('py_loop', [md, None]), 'swallow': ('swallow_loop', [md]), 'sleep': ('sleep_c', [40]), 'gil': ('hold_gil', [25]), 'stopped': ('py_loop', [md, None])}[beh]
    if pers:
        w = cls(getattr(vtargets, target), **kw)
        w.enqueue(*args)
    else:
        w = cls(getattr(vtargets, target), args=args, **kw)
    pid = w.pid
    own = pid == os.getpid()
    log.ev('created', pid=pid, own_process=own)
    # let the target get going (marker or settle)
    t0 = time.monotonic()
    while time.monotonic() - t0 < 5 and beh in ('coop', 'swallow', 'stopped', 'slowres', 'linger', 'linger-stopped') and not os.path.exists(os.path.join(md, 'entered')):
        time.sleep(0.01)
    time.sleep(spec.get('settle', 0.3))
    if beh == 'stopped':
        os.kill(pid, signal.SIGSTOP)
        time.sleep(0.4)
        log.ev('stopped', state=(proc_stat(pid) or {}).get('state'))
    try:
        for op in spec['ops']:
            name, t = op['op'], op.get('timeout')
            a = {}
            if t is not None:
                a['timeout'] = t
            if name == 'terminate':
                if 'force' in op:
                    a['force'] = op['force']
                if 'Remote' in spec['cls'] and t is not None:
                    a['remote_timeout'] = t
                if 'Remote' in spec['cls'] and op.get('remote_timeout') == 'none':
                    # documented: None = no separate bound for the remote side, the overall timeout applies
                    a['remote_timeout'] = None
                fn = lambda: w.terminate(**a)
            elif name == 'wait':
                fn = lambda: w.wait(**a)
            else:
                fn = lambda: w.is_alive()
            before = None if own else pid_running(pid)
            if op.get('cont_after') is not None and not own:
                # the stopped child is resumed while the call is in progress
                import threading

                def cont():
                    try:
                        os.kill(pid, signal.SIGCONT)
                    except OSError:
                        pass
                threading.Timer(op['cont_after'], cont).start()
            r = bounded(name, fn, op.get('deadline', 4 * (t or 0) + 25), args=a, pid_running_before=before)
            st = None if own else proc_stat(pid)
            log.ev('after', op=name, args=a, ret=(None if r is HANG else ('RAISED:' + type(r.exc).__name__ if isinstance(r, Raised) else r)), hang=(r is HANG),
                   pid_running=(None if own else pid_running(pid)), pid_state=(st or {}).get('state'))
            if r is HANG:
                break
    finally:
        if not own:
            try:
                os.kill(pid, signal.SIGCONT)
                os.kill(pid, signal.SIGKILL)
            except OSError:
                pass
    return {'ok': True}


def live_matrix(tier):
    jobs = []
    thorough = tier == 'thorough'
    for cls in KINDS:
        thread = 'Thread' in cls
        behs = ['coop', 'swallow'] if thread else ['coop', 'swallow', 'sleep', 'gil', 'stopped']
        if cls.startswith('Persistent') and not thorough:
            behs = [b for b in behs if b in ('coop', 'swallow', 'stopped')]
        for beh in behs:
            for t in (0, 0.3):
                forces = [False] if thread else [True, False]
                for force in forces:
                    ops = [dict(op='wait', timeout=t), dict(op='terminate', timeout=t, force=force)]
                    if not force:
                        ops.append(dict(op='is_alive'))
                        if not thread:
                            ops.append(dict(op='terminate', timeout=t, force=True))
                    ops += [dict(op='wait', timeout=0), dict(op='terminate', timeout=0, force=False if thread else True)]
                    jobs.append(dict(cls=cls, behaviour=beh, ops=ops, t=t, force=force))
        if not thread:
            # a co-operative target that returns its partial work when terminated; the value takes 0.4 s to rebuild in the parent,
            # i.e. the parent side is still receiving when the child is already gone
            for t in (0, 0.05, 0.2):
                for force in (True, False):
                    jobs.append(dict(cls=cls, behaviour='slowres', t=t, force=force, ops=[dict(op='terminate', timeout=t, force=force), dict(op='wait', timeout=2), dict(op='is_alive'), dict(op='terminate', timeout=0, force=True)]))
            if not cls.startswith('Persistent'):
                # the work is done and reported, but the child process lingers (and, in the second variant, gets stopped)
                for beh in ('linger', 'linger-stopped'):
                    jobs.append(dict(cls=cls, behaviour=beh, t=0.3, force='lingering', settle=(0.3 if beh == 'linger' else 1.0),
                                     ops=[dict(op='wait', timeout=0.3), dict(op='wait', timeout=0), dict(op='is_alive'), dict(op='terminate', timeout=0.2, force=True), dict(op='wait', timeout=0)]))
            if 'Remote' in cls:
                # remote_timeout=None: the remote side is bounded by the overall timeout alone
                for beh in ('swallow', 'sleep', 'coop'):
                    jobs.append(dict(cls=cls, behaviour=beh, t=0.5, force='remote-timeout-none', ops=[dict(op='terminate', timeout=0.5, force=True, remote_timeout='none'), dict(op='wait', timeout=0), dict(op='is_alive')]))
                    jobs.append(dict(cls=cls, behaviour=beh, t=0.3, force='remote-timeout-none', ops=[dict(op='terminate', timeout=0.3, force=False, remote_timeout='none'), dict(op='terminate', timeout=0.5, force=True, remote_timeout='none')]))
            # a stopped child that is resumed while a later call is in progress (requests of earlier, timed-out calls are still unread)
            tail = [dict(op='wait', timeout=0), dict(op='terminate', timeout=0, force=True)]
            for ca in (0.05, 0.15, 0.4):
                jobs.append(dict(cls=cls, behaviour='stopped', t=0.2, force='resumed', ops=[dict(op='terminate', timeout=0.2, force=False), dict(op='terminate', timeout=1, force=True, cont_after=ca)] + tail))
                jobs.append(dict(cls=cls, behaviour='stopped', t=0.2, force='resumed', ops=[dict(op='terminate', timeout=0.2, force=False), dict(op='terminate', timeout=0.2, force=False), dict(op='terminate', timeout=1, force=False, cont_after=ca), dict(op='terminate', timeout=1, force=True)] + tail))
                jobs.append(dict(cls=cls, behaviour='stopped', t=0.2, force='resumed', ops=[dict(op='wait', timeout=0.1), dict(op='terminate', timeout=1, force=True, cont_after=ca)] + tail))
    return jobs


def judge_live(chk, spec, res):
    cls, beh = spec['cls'], spec['behaviour']
    evs = res['events']
    afters = [e for e in evs if e.get('ev') == 'after']
    hangs = [e for e in evs if e.get('ev') == 'hang']
    rets = {(e['name']): e for e in evs if e.get('ev') in ('return', 'raise')}
    if not afters and not hangs:
        chk.inconclusive('no call completed', {'spec': spec, 'stderr': res['stderr'][-500:], 'timed_out': res['timed_out']})
        return
    thread = 'Thread' in cls
    durs = [e for e in evs if e.get('ev') in ('return', 'raise') and e.get('name') in ('wait', 'terminate', 'is_alive')]
    calls = [e for e in evs if e.get('ev') == 'call' and e.get('name') in ('wait', 'terminate', 'is_alive')]
    if any(e.get('ev') == 'caller_signalled' for e in evs):
        chk.violation('call-signalled-the-calling-process:%s:%s' % (kind_of(cls), beh), '%s target=%s: a call of %s sent SIGTERM to the calling process' % (cls, beh, [(a['op'], a['args']) for a in afters][:4]),
                      {'spec': spec, 'calls': afters})
        return
    seen_dead = False
    for i, a in enumerate(afters):
        op, args = a['op'], a['args']
        t = args.get('timeout') or 0
        dur = durs[i]['dur'] if i < len(durs) else None
        chk.count('calls_observed')
        probs = []
        if a['hang']:
            h = hangs[0] if hangs else {}
            probs.append('blocks-beyond-bound')
            detail = 'stack: %s' % (h.get('stack1', [])[:4],)
        else:
            detail = 'ret=%r dur=%s' % (a['ret'], dur)
            if isinstance(a['ret'], str) and a['ret'].startswith('RAISED'):
                probs.append('call-raised-%s' % a['ret'][7:])
            if dur is not None and dur > 4 * t + SLACK:
                probs.append('slower-than-4t+slack')
            if op in ('wait', 'terminate') and a['ret'] is True and a['pid_running'] is True:
                probs.append('returned-True-but-child-pid-alive')
            if op == 'is_alive' and a['ret'] is False and a['pid_running'] is True:
                probs.append('is_alive-False-but-child-pid-alive')
            if op == 'terminate' and args.get('force') is True and not thread and a['ret'] is not True:
                probs.append('force-terminate-returned-%s' % a['ret'])
            if op == 'terminate' and args.get('force') is True and not thread and a['pid_running'] is True:
                probs.append('child-alive-after-force-terminate')
            if seen_dead and op in ('wait', 'terminate') and a['ret'] is not True:
                probs.append('not-True-on-dead-worker')
            if seen_dead and dur is not None and dur > SLACK:
                probs.append('slow-on-dead-worker')
        if a['pid_running'] is False and a['ret'] is True:
            seen_dead = True
        if probs:
            key = '%s:%s:%s:%s' % (probs[0], kind_of(cls), beh, op + ('-force' if args.get('force') else ''))
            chk.violation(key, '%s target=%s: %s(%s): %s; %s; child state %s' % (cls, beh, op, args, ', '.join(probs), detail, a.get('pid_state')),
                          {'spec': spec, 'after': a, 'hang': hangs[:1], 'calls': afters})
            break
    else:
        if len(chk.samples) < 4:
            chk.sample({'cls': cls, 'behaviour': beh, 'calls': [(a['op'], a['args'], a['ret'], a['pid_running']) for a in afters]})


# ---------------------------------------------------------------- (B) call histories on dead / never-run workers

def hist_case(spec, log):
    import logging
    import signal
    import time
    logging.disable(logging.CRITICAL)
    from vlib import vtargets
    from vlib.common import pid_running
    from vlib.wcase import get_class
    cls, pers = get_class(spec['cls'])
    server = None
    kw = {}
    if 'Remote' in spec['cls']:
        from pyworkers.remote_server import spawn_server
        server = spawn_server(('127.0.0.1', 0))
        kw['host'] = server.addr
    state = spec['state']
    bad = []
    n_calls = 0
    n_hist = 0
    try:
        for first in spec['firsts']:
            # a fresh worker per first operation (the first observation of death is what caches it)
            if state == 'never-run':
                w = cls(vtargets.ret_value, run=False, **kw) if first % 2 == 0 else cls(None, **kw)
            elif state == 'returned':
                w = cls(vtargets.ret_value, **kw) if pers else cls(vtargets.ret_value, args=[3], **kw)
                if pers:
                    w.enqueue(3)
                    w.close()
            elif state == 'error':
                if pers:
                    w = cls(vtargets.raise_exc, **kw)
                    w.enqueue('ValueError', 'x')
                else:
                    w = cls(vtargets.raise_exc, args=['ValueError', 'x'], **kw)
            elif state == 'killed':
                if pers:
                    w = cls(vtargets.sleep_c, **kw)
                    w.enqueue(60)
                else:
                    w = cls(vtargets.sleep_c, args=[60], **kw)
                time.sleep(0.2)
                os.kill(w.pid, signal.SIGKILL)
            # establish death without touching the API
            t0 = time.monotonic()
            if state != 'never-run':
                if w.pid == os.getpid():
                    w._child.join(20)
                else:
                    while pid_running(w.pid) and time.monotonic() - t0 < 20:
                        time.sleep(0.005)
                    time.sleep(0.15 if 'Remote' in spec['cls'] else 0.02)
            for h in spec['histories']:
                if h[0] != first:
                    continue
                n_hist += 1
                for opi in h:
                    op = OPS[opi]
                    t1 = time.monotonic()
                    try:
                        if op == 'wait0':
                            r, exp = w.wait(0), True
                        elif op == 'wait02':
                            r, exp = w.wait(0.2), True
                        elif op == 'term0':
                            r, exp = w.terminate(timeout=0, **({'force': False} if w.pid == os.getpid() or 'Remote' in spec['cls'] else {})), True
                        elif op == 'term02':
                            r, exp = w.terminate(timeout=0.2, **({'force': False} if w.pid == os.getpid() or 'Remote' in spec['cls'] else {})), True
                        elif op == 'alive':
                            r, exp = w.is_alive(), False
                        else:
                            r, exp = w.close(), None
                    except BaseException as e:  # noqa
                        r, exp = 'RAISED:%s:%s' % (type(e).__name__, str(e)[:80]), '-'
                    dur = time.monotonic() - t1
                    n_calls += 1
                    if r != exp or dur > 5.0:
                        if len(bad) < 20:
                            bad.append({'history': [OPS[x] for x in h], 'op': op, 'ret': repr(r), 'expected': repr(exp), 'dur': round(dur, 3), 'first_op_of_worker': OPS[first]})
                        log.ev('bad', history=[OPS[x] for x in h], op=op, ret=repr(r), dur=round(dur, 3))
                        break
    finally:
        if server is not None:
            try:
                server.terminate(timeout=1, force=True)
            except BaseException:  # noqa
                pass
    return {'bad': bad, 'calls': n_calls, 'histories': n_hist}


def all_histories(maxlen=4):
    out = []
    for n in range(1, maxlen + 1):
        out += [list(h) for h in itertools.product(range(len(OPS)), repeat=n)]
    return out


def run(tier):
    thorough = tier == 'thorough'
    chk = Check('C04', 'exploration', tier,
                '(A) target behaviours {cooperative, swallows Exception, blocked in sleep, GIL held in C, SIGSTOPped} x six classes x timeouts {0, 0.3} x force {True, False}: every wait/terminate/is_alive call logged with duration, return value and OS state of the child pid; '
                '(B) all call histories of length <= 4 over {wait(0), wait(0.2), terminate(0), terminate(0.2), is_alive(), close()} on dead-by-return, dead-by-error, killed and never-run workers (a fresh worker per first operation); '
                'distinct non-trivial = distinct (class, behaviour, call sequence) and distinct (class, state, history)')
    r = rng('c04')
    wd = workdir('c04')
    jobs = live_matrix(tier)

    def one(ij):
        i, sp = ij
        res = run_case('checks.c04:live_case', sp, os.path.join(wd, 'l%d' % i), timeout=240)
        cleanup(res['dir'])
        return sp, res

    for sp, res in pmap(one, list(enumerate(jobs)), 8):
        chk.case(('live', sp['cls'], sp['behaviour'], sp['t'], sp['force'], tuple((o['op'], o.get('timeout'), o.get('force'), o.get('cont_after')) for o in sp['ops'])))
        chk.count('live_cases')
        judge_live(chk, sp, res)

    hists = all_histories(4)
    hjobs = []
    for cls in KINDS:
        states = ['never-run', 'returned', 'error'] + ([] if 'Thread' in cls else ['killed'])
        for state in states:
            hs = hists
            if not thorough and 'Thread' not in cls:
                hs = [h for h in hists if len(h) <= 2] + r.sample([h for h in hists if len(h) > 2], 200)
            hjobs.append(dict(cls=cls, state=state, histories=hs, firsts=list(range(len(OPS)))))

    def hone(ij):
        i, sp = ij
        res = run_case('checks.c04:hist_case', sp, os.path.join(wd, 'h%d' % i), timeout=600)
        cleanup(res['dir'])
        return sp, res

    for sp, res in pmap(hone, list(enumerate(hjobs)), 8):
        out = res['result']
        if out is None:
            chk.inconclusive('history batch gave no result', {'cls': sp['cls'], 'state': sp['state'], 'stderr': res['stderr'][-500:], 'timed_out': res['timed_out'], 'last': res['events'][-2:]})
            continue
        chk.evaluations += out['histories']
        chk.count('history_calls', out['calls'])
        chk.count('histories', out['histories'])
        chk.distinct.update('%s/%s/%s' % (sp['cls'], sp['state'], h) for h in map(tuple, sp['histories']))
        for b in out['bad']:
            sym = 'raised' if b['ret'].startswith("'RAISED") else ('slow' if b['ret'] == b['expected'] else 'wrong-return')
            chk.violation('history-%s:%s:%s:%s' % (sym, kind_of(sp['cls']), sp['state'], b['op']),
                          '%s %s worker, history %s: %s returned %s (expected %s) in %.3fs' % (sp['cls'], sp['state'], b['history'], b['op'], b['ret'], b['expected'], b['dur']), dict(b, cls=sp['cls'], state=sp['state']))
    if thorough:
        chk.extra['exhaustive'] = True
        chk.extra['exhaustive_note'] = 'all 1554 call histories of length <= 4 per (class, state)'
    cleanup(wd)
    chk.assumptions = ['bound for a call with timeout t: 4*t + 10 s slack; a call still blocked at 4*t + 25 s is reported with two stack samples',
                       'truthfulness is checked against /proc/<pid>/stat (zombies count as dead)',
                       'ThreadWorker force=True is excluded (documented to signal the whole process)']
    return chk.finish(min_distinct=50)


def replay(spec):
    import json
    print(json.dumps(spec, indent=1)[:5000])
    return 0
