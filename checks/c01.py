"""C01 - a dead worker always has one definite, consistent and stable outcome.

Endings x kinds; after death the public accessors are observed six times
(immediately, after 50 ms, from a second thread, after wait(), after
terminate(), again).  Oracle: no accessor raises or blocks, has_error is a
bool, exactly one of the two shapes holds, the value/exception is the
ending's, and all observations agree."""
import os

from vlib import lpi
from vlib.common import Check, run_case, pmap, workdir, cleanup, short, VERIF
from checks import lp

PROC_KINDS = ['ProcessWorker', 'RemoteWorker', 'PersistentProcessWorker', 'PersistentRemoteWorker']


def kind_of(cls):
    return cls.replace('Worker', '')


def judge(chk, case, ending, expect, accept_killed, mech):
    """expect: ('value', repr) | ('error', type) | ('any',) ; accept_killed: (True, None, None) allowed.
    mech: mechanism label for known-finding keys."""
    dg = lp.digest(case)
    cls = case['cls']
    if dg['fatal'] or dg['timed_out']:
        if dg['hangs']:
            chk.violation('blocked:%s:%s:%s' % (dg['hangs'][0]['name'].split(':')[0], kind_of(cls), mech),
                          '%s %s: %s blocked; stack %s' % (cls, ending, dg['hangs'][0]['name'], dg['hangs'][0]['stack'][:4]), lp.witness(case, dg))
        else:
            chk.inconclusive('case did not complete (%s)' % (dg['fatal'] or 'watchdog'), lp.witness(case, dg))
        return None
    obs = dg['observations']
    if not obs:
        # death was not observed: C01 says nothing (C03/C04 do), unless a call blocked
        if dg['hangs']:
            chk.violation('blocked:%s:%s:%s' % (dg['hangs'][0]['name'].split(':')[0], kind_of(cls), mech),
                          '%s %s: %s blocked; stack %s' % (cls, ending, dg['hangs'][0]['name'], dg['hangs'][0]['stack'][:4]), lp.witness(case, dg))
        else:
            chk.count('death_not_observed')
        return None
    chk.count('dead_workers_observed')
    probs = []
    shapes = [lp.shape(o, expect if expect[0] != 'any' else ('value', None)) for o in obs]
    first = obs[0]
    for i, o in enumerate(obs):
        for name in ('is_alive', 'has_error', 'result', 'error'):
            v = o.get(name)
            if isinstance(v, dict) and 'RAISED' in v:
                probs.append('accessor-%s-raised-%s' % (name, v['RAISED']))
            if isinstance(v, dict) and 'HANG' in v:
                probs.append('accessor-%s-blocked' % name)
        if o.get('is_alive') is True:
            probs.append('is_alive-true-after-death')
        if o.get('has_error') is None:
            probs.append('has_error-None')
    for i, o in enumerate(obs[1:], 1):
        if any(o.get(n) != first.get(n) for n in ('is_alive', 'has_error', 'result', 'error')):
            probs.append('outcome-changed')
            break
    sh = shapes[0]
    if not probs:
        he = first['has_error']
        if he is False:
            if first['error'] is not None or (isinstance(first['error'], dict)):
                probs.append('shapeA-with-error')
            if expect[0] == 'value' and first['result'].get('repr') != expect[1]:
                probs.append('wrong-result-value')
            if expect[0] == 'error':
                probs.append('success-reported-for-failed-work')
        else:
            if first['result'].get('type') != 'NoneType':
                probs.append('shapeB-with-result')
            err = first['error']
            if err is None:
                if not accept_killed:
                    probs.append('error-None-though-reportable')
            elif isinstance(err, dict) and 'NOT_EXC' in err:
                probs.append('error-not-an-exception')
            elif expect[0] == 'error' and err['type'] not in (expect[1], 'WorkerTerminatedError'):
                probs.append('wrong-error-type-%s' % err['type'])
            elif expect[0] == 'value' and err['type'] != 'WorkerTerminatedError' and ending.startswith('terminate'):
                probs.append('wrong-error-type-%s' % err['type'])
            elif expect[0] == 'value' and not ending.startswith('terminate') and not ending.startswith('kill'):
                probs.append('failure-reported-for-successful-work')
    chk.count('shape_' + sh.split(':')[0])
    if probs:
        probs = sorted(set(probs), key=probs.index)
        key = '%s:%s:%s' % (probs[0], kind_of(cls), mech)
        if mech == 'terminate@stdlib-lock-internals':
            key = 'terminate-inside-stdlib-lock-internals:%s' % kind_of(cls)
        chk.violation(key, '%s ending=%s: %s; first observation %s' % (cls, ending, ', '.join(probs), short(first, 260)), lp.witness(case, dg))
    return sh


# ---------------------------------------------------------------- A. plain endings

ENDINGS = [
    ('return-None', dict(target='ret_value', targs=[None]), ('value', 'None'), False),
    ('return-0', dict(target='ret_value', targs=[0]), ('value', '0'), False),
    ('return-empty', dict(target='ret_value', targs=['']), ('value', "''"), False),
    ('return-False', dict(target='ret_value', targs=[False]), ('value', 'False'), False),
    ('return-list', dict(target='build', targs=['list', 3]), ('value', '[0, 1, 2]'), False),
    ('return-val', dict(target='build', targs=['val', 2]), ('value', "Val((2, [2]), {'k': {'n': 2}})"), False),
    ('return-slowbox', dict(target='ret_slow', targs=[42, 0.8]), ('value', 'SlowBox(42)'), False),
    ('raise-slowerr', dict(target='ret_slow', targs=[43, 0.8, True]), ('error', 'SlowError'), False),
    ('raise-ValueError', dict(target='raise_exc', targs=['ValueError', 'a', 1]), ('error', 'ValueError'), False),
    ('raise-KeyError', dict(target='raise_exc', targs=['KeyError', 'k']), ('error', 'KeyError'), False),
    ('raise-Custom', dict(target='raise_exc', targs=['Custom', 'x']), ('error', 'CustomError'), False),
    ('raise-OSError', dict(target='raise_exc', targs=['OSError', 2, 'nope']), ('error', 'FileNotFoundError'), False),
    ('raise-BrokenPipe', dict(target='raise_exc', targs=['OSError', 32, 'pipe']), ('error', 'BrokenPipeError'), False),
    ('raise-EOFError', dict(target='raise_exc', targs=['EOFError']), ('error', 'EOFError'), False),
    ('raise-queue.Empty', dict(target='raise_exc', targs=['queue.Empty']), ('error', 'Empty'), False),
    ('raise-WTE-by-target', dict(target='raise_exc', targs=['WorkerTerminatedError', 'own']), ('error', 'WorkerTerminatedError'), False),
    ('raise-TwoArg', dict(target='raise_exc', targs=['TwoArg']), ('error', 'TwoArgError'), True),
    ('raise-CustomBase', dict(target='raise_exc', targs=['CustomBase', 'b']), ('error', 'CustomBase'), 'proc'),
    ('raise-SystemExit', dict(target='raise_exc', targs=['SystemExit', 3]), ('error', 'SystemExit'), 'proc'),
    ('raise-KeyboardInterrupt', dict(target='raise_exc', targs=['KeyboardInterrupt']), ('error', 'KeyboardInterrupt'), 'proc'),
]
PERS_ENDINGS = [
    ('p-return', dict(target='p_work', targs=[0, '$DIR'], inputs=[[1], [2], [3]]), ('value', '3'), False),
    ('p-noinput', dict(target='p_work', targs=[0, '$DIR'], inputs=[]), ('value', '0'), False),
    ('p-raise-2nd', dict(target='p_work', targs=[0, '$DIR'], inputs=[[1], [2, '$DIR', 4, True], [3]]), ('error', 'CustomError'), False),
    ('p-raise-unrebuildable', dict(target='p_work', targs=[0, '$DIR'], inputs=[[1], [2, '$DIR', 4, 'twoarg'], [3]]), ('error', 'TwoArgError'), True),
    ('p-raise-unrebuildable-1st', dict(target='p_work', targs=[0, '$DIR'], inputs=[[1, '$DIR', 4, 'twoarg']]), ('error', 'TwoArgError'), True),
]


def plain_endings(chk, tier, wd):
    jobs = []
    # how death is first observed matters (a wait() in progress reads the report on a different path than a later look)
    for via in ('wait', 'poll', 'late', 'mixed'):
        for cls in lp.ONE_SHOT:
            for name, sp, exp, ak in ENDINGS:
                jobs.append((cls, name + '/' + via, dict(sp, cls=cls, quiet=False, observe_via=via), exp, ak))
        for cls in lp.PERSISTENT:
            for name, sp, exp, ak in PERS_ENDINGS:
                jobs.append((cls, name + '/' + via, dict(sp, cls=cls, quiet=False, observe_via=via), exp, ak))
    # the final user_state (not the result) is what cannot be rebuilt in the parent: the outcome must be definite all the same
    for via in ('wait', 'mixed'):
        for cls in ('StatefulProcessWorker', 'StatefulRemoteWorker'):
            jobs.append((cls, 'state-unrebuildable/' + via, dict(cls=cls, target='ret_value', targs=['$DIR', [1, {'__onlyhere__': 1}], 'return'], quiet=False, observe_via=via), ('any',), True))
        for cls in ('StatefulPersistentProcessWorker', 'StatefulPersistentRemoteWorker'):
            jobs.append((cls, 'p-state-unrebuildable/' + via, dict(cls=cls, target='ret_value', targs=[], inputs=[['$DIR', [1], 'return'], ['$DIR', [{'__onlyhere__': 1}], 'return']], quiet=False, observe_via=via), ('any',), True))
    # main-script classes (value class / exception class defined in the launching script)
    for cls in lp.ONE_SHOT:
        jobs.append((cls, 'main-return-MainVal', dict(cls=cls, target='main:main_ret', targs=[3], quiet=False, script=True), ('value', 'MainVal(3)'), True))
        jobs.append((cls, 'main-raise-MainErr', dict(cls=cls, target='main:main_raise', targs=[3], quiet=False, script=True), ('error', 'MainErr'), True))
        jobs.append((cls, 'main-return-plain', dict(cls=cls, target='main:main_plain', targs=[3], quiet=False, script=True), ('value', '6'), False))

    def one(job):
        cls, name, sp, exp, ak = job
        script = os.path.join(VERIF, 'vlib', 'scripts', 'main_case.py') if sp.pop('script', False) else None
        res = run_case('vlib.wcase:lifecycle', sp, os.path.join(wd, 'e_%s_%s' % (cls, name)), timeout=120, script=script)
        cleanup(res['dir'])
        return job, res

    for job, res in pmap(one, jobs, 12):
        cls, name, sp, exp, ak = job
        case = dict(cls=cls, scen=name, k=-1, own=exp, res=res, rec_event=None)
        accept = ak is True or (ak == 'proc' and 'Thread' not in cls)
        chk.case(('ending', cls, name))
        chk.count('plain_ending_cases')
        sh = judge(chk, case, name, exp, accept, 'ending=' + name.split('/')[0] + ('' if name.endswith('/wait') or '/' not in name else ':observed-by-' + name.split('/')[1]))
        if len(chk.samples) < 3 and sh:
            chk.sample({'cls': cls, 'ending': name, 'shape': sh, 'observations': 6})


# ---------------------------------------------------------------- B. graceful terminate at every landing point

def terminate_matrix(chk, tier):
    scen_one = ['short', 'raise']
    scen_pers = ['p2', 'pfail'] if tier == 'thorough' else ['p2']
    cases, traces = lp.run_matrix(tier, lp.ALL, scen_one, scen_pers, 'c01t', extra_repeats=(0 if tier == 'thorough' else 3), per_class_cap=(None if tier == 'thorough' else 36))
    lp.require_classes(chk, cases, lp.ALL, 'terminate-matrix')
    cases2, _ = lp.run_matrix(tier, ['ProcessWorker'], ['bigret'], [], 'c01big', extra_repeats=0, wide=True)
    cases = list(cases) + list(cases2)
    for c in cases:
        dg = lp.digest(c)
        if dg['point'] is None:
            chk.count('point_not_reached')
            continue
        arrived = 'landed' in dg['injector']
        region = lp.region_of(dg['point'], dg['marks'])
        block = lp.run_block(dg['point'])
        chk.case(('term', c['cls'], c['scen'], dg['point']['kind'], dg['point']['file'], dg['point']['func'], dg['point']['line']))
        chk.count('terminate_landing_cases')
        chk.count('terminate_block_' + block)
        accept_killed = 'Thread' not in c['cls']
        # a terminate request may turn a successful run into a WTE failure and vice versa: accept both
        exp = c['own']
        mech = 'terminate@%s/%s' % (block, lp.where_lib(dg['point']) if block == 'outside-run' else region)
        if lp.stdlib_internal(dg['point']):
            mech = 'terminate@stdlib-lock-internals'
        judge_term(chk, c, exp, accept_killed, mech)


def judge_term(chk, case, own, accept_killed, mech):
    # the ending is either the target's own or WorkerTerminatedError: check both readings, report the better one
    dg = lp.digest(case)
    obs = dg['observations']
    if obs and lp.shape(obs[0], own) in ('own',):
        return judge(chk, case, 'terminate-landing', own, accept_killed, mech)
    return judge(chk, case, 'terminate-landing', ('error', 'WorkerTerminatedError'), accept_killed, mech)


# ---------------------------------------------------------------- C. SIGKILL / SIGTERM at every line point

def kill_matrix(chk, tier):
    for sig in ('sigkill', 'sigterm'):
        cases, traces = lp.run_matrix(tier, PROC_KINDS, ['short', 'raise'] if tier == 'thorough' else ['short'], ['p2'], 'c01k' + sig, events='line', inject_action=sig,
                                      extra_repeats=(0 if tier == 'thorough' else 2), per_class_cap=(None if tier == 'thorough' else 15))
        lp.require_classes(chk, cases, PROC_KINDS, 'kill-matrix-' + sig)
        for c in cases:
            dg = lp.digest(c)
            if dg['point'] is None:
                chk.count('point_not_reached')
                continue
            block = lp.run_block(dg['point'])
            chk.case((sig, c['cls'], c['scen'], dg['point']['file'], dg['point']['func'], dg['point']['line']))
            chk.count(sig + '_cases')
            chk.count(sig + '_block_' + block)
            obs = dg['observations']
            own = c['own']
            mech = '%s@%s' % (sig, block)
            if obs and lp.shape(obs[0], own) == 'own':
                judge(chk, c, 'kill-' + sig, own, True, mech)
            else:
                judge(chk, c, 'kill-' + sig, ('any',), True, mech)


# ---------------------------------------------------------------- D. killed while blocked sending a large result

def big_result_kills(chk, tier, wd):
    jobs = []
    for cls in ['ProcessWorker', 'RemoteWorker']:
        for size in ((1 << 20, 4 << 20) if tier == 'thorough' else (1 << 20,)):
            for sig in ('SIGKILL', 'SIGTERM'):
                for settle in ((0.3, 1.0) if tier == 'thorough' else (0.5,)):
                    jobs.append((cls, size, sig, settle))

    def one(job):
        cls, size, sig, settle = job
        sp = dict(cls=cls, target='big', targs=[size], quiet=False, action=dict(kind='signal', sig=sig, settle=settle), wait_timeout=10)
        res = run_case('vlib.wcase:lifecycle', sp, os.path.join(wd, 'big_%s_%d_%s_%s' % (cls, size, sig, settle)), timeout=150)
        cleanup(res['dir'])
        return job, res

    for job, res in pmap(one, jobs, 8):
        cls, size, sig, settle = job
        case = dict(cls=cls, scen='big%d' % size, k=-1, own=('any',), res=res, rec_event=None)
        chk.case(('big', cls, size, sig, settle))
        chk.count('big_result_kill_cases')
        dg = lp.digest(case)
        if dg['observations'] and dg['observations'][0].get('has_error') is False:
            chk.count('big_result_arrived_before_kill')
        judge(chk, case, 'kill-%s-while-sending-%d' % (sig, size), ('any',), True, 'kill-mid-send')


def run(tier):
    chk = Check('C01', 'fault_enumeration', tier,
                'six worker classes x endings: return values (None/falsy/containers/custom), Exception and BaseException classes, results/exceptions that cannot be rebuilt in the parent (two-argument constructor, classes defined in the main script), '
                'graceful terminate at every recorded eval-breaker point of the child, SIGKILL and SIGTERM at every recorded line of the child (process/remote), kill while blocked sending a 1-4 MiB result; '
                'each dead worker is observed six times; distinct non-trivial = distinct (ending or landing point, class)')
    wd = workdir('c01')
    plain_endings(chk, tier, wd)
    big_result_kills(chk, tier, wd)
    terminate_matrix(chk, tier)
    kill_matrix(chk, tier)
    cleanup(wd)
    chk.assumptions = ['for process/remote kinds (True, None, None) is accepted where the statement exempts it: kill signals, exceptions that cannot be transferred, BaseException endings, and terminate landings (C03 judges those)',
                       'values are compared through repr()']
    return chk.finish(min_distinct=100)


def replay(spec):
    from checks import lp
    return lp.replay_case(spec)
