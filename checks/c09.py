"""C09 - no worker outlives its pool; a pool stays usable across runs and restarts.

Monitor: seeded histories over {add_worker(kind), attach, run(n), restart_workers,
SIGKILL a worker, poison input, stuck worker, failing registration, exception
in the with-body, close, terminate} on mixed pools, each in its own session.
Oracle: /proc census of the workers' child pids after the pool was left,
is_alive() of every worker, per-run result multisets (unique ids per run) and
the hand-out log from the worker callback."""
import os

from vlib.common import Check, rng, run_case, pmap, workdir, cleanup, short

KINDS = ['THREAD', 'PROCESS', 'REMOTE']


def case(spec, log):
    import logging
    import signal
    import threading
    import time
    logging.disable(logging.CRITICAL)
    from vlib import vtargets
    from vlib.case import Bounded, HANG, Raised
    from vlib.common import pid_running, descendants
    from pyworkers.pool import Pool, PoolError
    from pyworkers.worker import WorkerType
    from pyworkers.persistent import PersistentWorker
    bounded = Bounded(log)
    server = None

    class RejectingPool(Pool):
        reject_next = False

        def handle_new_worker(self, worker):
            if self.reject_next:
                self.reject_next = False
                raise RuntimeError('registration refused')

    def host():
        nonlocal server
        if server is None:
            from pyworkers.remote_server import spawn_server
            server = spawn_server(('127.0.0.1', 0))
        return server.addr

    p = RejectingPool(vtargets.pool_target2, close_timeout=spec['close_timeout'], retry=True)
    if spec['force'] is not None:
        p.force = spec['force']
    all_workers = []       # every worker ever added / attached / rejected (harness-held)
    pids = {}              # pid -> description, for process/remote children
    run_no = 0
    handouts = []
    left = False

    def note(w, tag):
        all_workers.append((tag, w))
        if not w.is_thread:
            pids[w.pid] = '%s %s' % (tag, type(w).__name__)

    def cb(worker, event, *a):
        if event == 'enqueued':
            handouts.append((run_no, worker.userid, worker.is_alive()))

    try:
        p.__enter__()
        for step, op in enumerate(spec['ops']):
            name = op[0]
            if name == 'add':
                kw = {'host': host()} if op[1] == 'REMOTE' else {}
                if len(op) > 2 and op[2] == 'rejected':
                    p.reject_next = True
                before = set(pids)
                r = bounded('add_worker', lambda: p.add_worker(WorkerType[op[1]], **kw), 60)
                if isinstance(r, Raised):
                    log.ev('add_failed', etype=type(r.exc).__name__, step=step)
                    # the rejected worker's child must not be left behind: find new descendants
                    time.sleep(0.3)
                    kids = [c for c in descendants(os.getpid()) if c != (server.pid if server else -1)]
                    log.ev('after_failed_add', registered=len(p.workers))
                elif r is not HANG:
                    note(r, 'added')
            elif name == 'attach':
                cls = PersistentWorker.create.__func__
                kw = {'host': host()} if op[1] == 'REMOTE' else {}
                # a worker meant for a pool is created with a waitable results pipe; every third one with the
                # kind's default queue, which attach() has to refuse (thread/remote) instead of poisoning later runs
                from pyworkers.utils import Pipe as _Pipe
                waitable = (step % 3 != 2) or op[1] == 'PROCESS'
                if waitable:
                    kw['results_pipe'] = _Pipe()
                w = PersistentWorker.create(WorkerType[op[1]], vtargets.pool_target2, **kw)
                r = bounded('attach', lambda: p.attach(w), 30)
                if isinstance(r, Raised):
                    log.ev('attach_refused', waitable=waitable, kind=op[1], etype=type(r.exc).__name__)
                    w.terminate(timeout=1, **({'force': False} if w.is_thread or w.is_remote else {}))
                else:
                    log.ev('attached', waitable=waitable, kind=op[1])
                    note(w, 'attached')
            elif name == 'run':
                run_no += 1
                n = op[1]
                rid = run_no
                poison = op[2] if len(op) > 2 else []
                linger = op[4] if len(op) > 4 else []
                inputs = [[rid, i, ('linger' if i in linger else (i in poison))] for i in range(n)]
                live_at_start = sum(1 for w in p.workers if w.is_alive())
                r = bounded('run', lambda: p.run(iter(inputs), worker_callback=cb, worker_extra_pending_inputs=op[3] if len(op) > 3 else 0), 90)
                if r is HANG:
                    p._map_guard = False
                    log.ev('run', run=rid, outcome='hang')
                elif isinstance(r, Raised):
                    part = getattr(r.exc, 'partial_results', None)
                    log.ev('run', run=rid, outcome='raised:' + type(r.exc).__name__, n=n, results=part if part is not None else None, alive=[w.is_alive() for _, w in all_workers], poison=poison, live_at_start=live_at_start)
                else:
                    log.ev('run', run=rid, outcome='returned', n=n, results=r, poison=poison, live_at_start=live_at_start)
            elif name == 'run_abort':
                # the run is left by an exception of the user's own callback while results are still outstanding
                run_no += 1
                n, at = op[1], op[2]
                rid = run_no
                seen = [0]

                class UserAbort(Exception):
                    pass

                def cb2(worker, event, *a):
                    cb(worker, event, *a)
                    if event == 'finished':
                        seen[0] += 1
                        if seen[0] == at:
                            raise UserAbort('callback gives up')
                inputs = [[rid, i, False] for i in range(n)]
                r = bounded('run', lambda: p.run(iter(inputs), worker_callback=cb2, worker_extra_pending_inputs=op[3] if len(op) > 3 else 1), 90)
                if r is HANG:
                    p._map_guard = False
                log.ev('run', run=rid, abort=True, outcome=('hang' if r is HANG else 'raised:' + type(r.exc).__name__ if isinstance(r, Raised) else 'returned'), n=n, results=None, poison=[], live_at_start=0,
                       pending_after=p._pending)
            elif name == 'restart':
                r = bounded('restart_workers', lambda: p.restart_workers(timeout=1), 90)
                log.ev('restart', outcome=('hang' if r is HANG else 'raised:' + type(r.exc).__name__ if isinstance(r, Raised) else 'ok'))
                for w in p.workers:
                    if not w.is_thread:
                        pids[w.pid] = 'restarted %s' % type(w).__name__
            elif name == 'kill':
                live = [w for _, w in all_workers if not w.is_thread and w.is_alive()]
                if live:
                    w = live[op[1] % len(live)]
                    os.kill(w.pid, signal.SIGKILL)
                    time.sleep(0.2)
                    log.ev('killed', pid=w.pid)
            elif name == 'stick':
                live = [w for _, w in all_workers if w.is_alive()]
                if live:
                    w = live[op[1] % len(live)]
                    try:
                        w.enqueue([0, 0, 'stuck'])
                        log.ev('stuck', userid=w.userid, thread=w.is_thread)
                    except BaseException:  # noqa
                        pass
                    time.sleep(0.2)
            elif name == 'leave':
                how = op[1]
                if how == 'exit':
                    r = bounded('exit', lambda: p.__exit__(None, None, None), 120)
                elif how == 'exit-exc':
                    e = ValueError('body failed')
                    r = bounded('exit', lambda: p.__exit__(ValueError, e, None), 120)
                elif how == 'close-interrupted':
                    # close() is interrupted from outside (Ctrl-C style) while it waits for a worker; the caller reacts with terminate()
                    # (a real SIGINT: only the main thread's blocking calls are interruptible, and that is where close() runs here)
                    box = {}
                    signal.signal(signal.SIGINT, signal.default_int_handler)
                    timer = threading.Timer(0.3, lambda: os.kill(os.getpid(), signal.SIGINT))
                    timer.start()
                    try:
                        p.close()
                        box['close'] = 'returned'
                    except KeyboardInterrupt:
                        box['close'] = 'raised:KeyboardInterrupt'
                    except BaseException as e:  # noqa
                        box['close'] = 'raised:' + type(e).__name__
                    timer.cancel()
                    log.ev('close_interrupted', outcome=box.get('close', 'still-running'))
                    r = bounded('exit', lambda: p.terminate(), 120)
                elif how == 'close':
                    r = bounded('exit', lambda: p.close(), 120)
                else:
                    r = bounded('exit', lambda: p.terminate(), 120)
                left = True
                log.ev('left', how=how, outcome=('hang' if r is HANG else 'raised:' + type(r.exc).__name__ if isinstance(r, Raised) else 'ok'))
                break
        if not left:
            r = bounded('exit', lambda: p.__exit__(None, None, None), 120)
            log.ev('left', how='exit', outcome=('hang' if r is HANG else 'raised:' + type(r.exc).__name__ if isinstance(r, Raised) else 'ok'))
        time.sleep(0.1)
        census = {str(pid): {'what': what, 'running': pid_running(pid)} for pid, what in pids.items()}
        alive = [(tag, type(w).__name__, w.userid) for tag, w in all_workers if w.is_alive() and not w.is_thread]
        stuck_threads = [(tag, w.userid) for tag, w in all_workers if w.is_thread and w.is_alive()]
        def cmdline(pid):
            try:
                with open('/proc/%d/cmdline' % pid, 'rb') as f:
                    return f.read().replace(b'\0', b' ').decode('utf-8', 'replace')
            except OSError:
                return ''
        # multiprocessing's own resource tracker helpers are not workers
        leftovers = [c for c in descendants(os.getpid()) if (server is None or c != server.pid) and 'resource_tracker' not in cmdline(c)]
        log.ev('census', pids=census, alive_process_or_remote=alive, alive_threads=stuck_threads, leftover_descendants=leftovers)
        log.ev('handouts', handouts=handouts)
        return {'ok': True}
    finally:
        for pid in pids:
            try:
                os.kill(pid, signal.SIGKILL)
            except OSError:
                pass
        if server is not None:
            try:
                server.terminate(timeout=1, force=True)
            except BaseException:  # noqa
                pass


def gen_history(r):
    ops = []
    nadd = r.randint(1, 3)
    for _ in range(nadd):
        ops.append(['add', r.choice(KINDS)])
    body = r.randint(1, 5)
    stuck = False
    for _ in range(body):
        x = r.random()
        if x < 0.40 and not stuck:
            n = r.randint(0, 14)
            poison = sorted(set(r.randrange(max(1, n)) for _ in range(r.choice([0, 0, 0, 1]))))
            ops.append(['run', n, poison, r.randint(0, 2)] + ([poison] if poison and r.random() < 0.4 else []))
        elif x < 0.44 and not stuck:
            ops.append(['run_abort', r.randint(3, 10), r.randint(1, 2), r.randint(1, 2)])
        elif x < 0.50:
            ops.append(['add', r.choice(KINDS)] + (['rejected'] if r.random() < 0.4 else []))
        elif x < 0.58:
            ops.append(['attach', r.choice(KINDS)])
        elif x < 0.70 and not stuck:
            ops.append(['restart'])
        elif x < 0.82:
            ops.append(['kill', r.randrange(10)])
        elif x < 0.92:
            ops.append(['stick', r.randrange(10)])
            stuck = True
    if r.random() < 0.25 and not stuck:
        # a failed run (every worker dies on a poisonous input) followed by new/restarted workers and a harmless run
        n = r.randint(2, 8)
        ops.append(['run', n, [r.randrange(n)], r.randint(0, 2)])
        ops.append(r.choice([['restart'], ['add', r.choice(KINDS)]]))
        ops.append(['run', r.randint(1, 8), [], r.randint(0, 1)])
    ops.append(['leave', r.choice(['exit', 'exit', 'exit-exc', 'close', 'terminate'])])
    # force=True on a stuck *thread* worker is documented to SIGTERM the whole process: only combine force=True with histories without stuck workers
    return dict(ops=ops, close_timeout=r.choice([0.2, 1]), force=(None if stuck else r.choice([None, None, True])))


def judge(chk, spec, res):
    evs = res['events']
    cen = [e for e in evs if e.get('ev') == 'census']
    hangs = [e for e in evs if e.get('ev') == 'hang']
    if not cen:
        if hangs:
            chk.violation('blocked:%s' % hangs[0]['name'], 'history %s: %s blocked; stack %s' % (short(spec['ops'], 200), hangs[0]['name'], hangs[0].get('stack1', [])[:4]), {'spec': spec, 'hang': hangs[0]})
        else:
            chk.inconclusive('history incomplete', {'spec': spec, 'stderr': res['stderr'][-500:], 'timed_out': res['timed_out']})
        return
    cen = cen[0]
    probs = []
    for e in evs:
        if e.get('ev') == 'add_failed':
            op = spec['ops'][e['step']]
            if not (len(op) > 2 and op[2] == 'rejected'):
                # nothing in the history explains a failing add_worker: the history did not exercise what it was meant to
                chk.inconclusive('add_worker raised %s although its registration was not refused' % e['etype'], {'spec': spec, 'event': e})
                return
    left = [e for e in evs if e.get('ev') == 'left']
    if left and left[0]['outcome'] != 'ok':
        probs.append('leaving-the-pool-%s' % left[0]['outcome'])
    running = {pid: v for pid, v in cen['pids'].items() if v['running']}
    if running:
        probs.append('child-process-survives-the-pool')
    if cen.get('leftover_descendants') and not running:
        probs.append('leaked-child-process-of-unregistered-worker')
    if cen['alive_process_or_remote']:
        probs.append('worker-alive-after-pool-left')
    has_stuck = any(o[0] == 'stick' for o in spec['ops'])
    # per-run result multisets
    aborted_before = False
    after_abort = []       # problems of runs that follow a run left through the user's own exception
    for e in evs:
        if e.get('ev') != 'run':
            continue
        chk.count('runs')
        rp = []
        if e['outcome'] == 'hang':
            if not has_stuck:
                rp.append('run-blocks')
        elif e.get('abort'):
            if e['outcome'] == 'returned':
                chk.count('abort_not_reached')
            elif e['outcome'] == 'raised:PoolError':
                chk.count('abort_not_reached')       # every worker had died before the callback got its chance
            elif e['outcome'] != 'raised:UserAbort':
                rp.append('aborted-run-%s' % e['outcome'])
            else:
                chk.count('runs_aborted_with_results_outstanding' if e.get('pending_after') else 'runs_aborted_without_outstanding_results')
        else:
            # a run with harmless inputs on a pool that has live workers (nobody is killed during a run) must complete:
            # the pool stays usable whatever earlier runs went through
            if e['outcome'].startswith('raised') and not e.get('poison') and e.get('live_at_start', 0) >= 1 and not has_stuck:
                rp.append('harmless-run-on-live-pool-%s' % e['outcome'])
            vals = e.get('results')
            if vals is not None:
                ids = [tuple(v[1][:2]) if isinstance(v, list) and len(v) > 1 and isinstance(v[1], list) else None for v in vals]
                if any(i is None or i[0] != e['run'] for i in ids):
                    rp.append('run-returned-results-of-another-run')
                if len(set(ids)) != len(ids):
                    rp.append('duplicate-result-in-run')
                if e['outcome'] == 'returned' and sorted(i[1] for i in ids if i) != list(range(e['n'])):
                    rp.append('returned-run-misses-inputs')
        if aborted_before and not e.get('abort'):
            after_abort += rp
        else:
            probs += rp
        if e.get('abort') and e['outcome'] == 'raised:UserAbort' and e.get('pending_after'):
            aborted_before = True
    if after_abort and not probs:
        # mechanism: results of the aborted run are still in the workers' pipes when the next run starts
        sym = 'internal-error' if any(x.startswith('harmless-run-on-live-pool-raised') and 'PoolError' not in x for x in after_abort) else \
              'blocks' if 'run-blocks' in after_abort else 'poolerror' if any('PoolError' in x for x in after_abort) else 'foreign-or-missing-results'
        chk.violation('run-after-aborted-run:%s' % sym, 'history %s: a run that follows a run left through the user callback\'s exception with results outstanding: %s' % (short(spec['ops'], 300), ', '.join(sorted(set(after_abort)))),
                      {'spec': spec, 'runs': [e for e in evs if e.get('ev') == 'run'], 'stderr': res['stderr'][-300:]})
        return
    probs += after_abort
    for e in evs:
        if e.get('ev') == 'attach_refused' and e['waitable']:
            probs.append('attach-of-waitable-worker-refused')
        if e.get('ev') == 'attached' and not e['waitable']:
            probs.append('attach-accepted-worker-that-cannot-be-multiplexed')
    ho = [e for e in evs if e.get('ev') == 'handouts']
    if ho:
        dead_handouts = [h for h in ho[0]['handouts'] if h[2] is False]
        chk.count('handouts', len(ho[0]['handouts']))
        if dead_handouts:
            probs.append('dead-worker-was-handed-work')
    for e in evs:
        if e.get('ev') == 'restart' and e['outcome'] not in ('ok',) and not has_stuck and not e['outcome'].startswith('raised:RuntimeError'):
            probs.append('restart_workers-%s' % e['outcome'])
    if probs:
        mech = 'stuck-worker' if has_stuck else 'lingering-child' if any(o[0] == 'run' and len(o) > 4 and o[4] for o in spec['ops']) else ('after-kill' if any(o[0] == 'kill' for o in spec['ops']) else 'plain')
        chk.violation('%s:%s:%s' % (probs[0], mech, spec['ops'][-1][1]),
                      'history %s (close_timeout=%s force=%s): %s; census %s' % (short(spec['ops'], 300), spec['close_timeout'], spec['force'], ', '.join(probs), short(cen, 300)),
                      {'spec': spec, 'census': cen, 'runs': [e for e in evs if e.get('ev') == 'run'], 'left': left, 'stderr': res['stderr'][-300:]})
    elif len(chk.samples) < 4:
        chk.sample({'ops': spec['ops'], 'close_timeout': spec['close_timeout'], 'census': cen['pids']})


def run(tier):
    thorough = tier == 'thorough'
    chk = Check('C09', 'exploration', tier,
                'seeded histories (<= ~8 operations) over {add_worker(thread/process/remote), add_worker with refused registration, attach, run(n inputs, poison, extra pending), restart_workers, runs left through an exception of the user callback with results outstanding, SIGKILL a worker, stuck worker, worker that dies of its input while its child process lingers, '
                'leave by __exit__ / __exit__ with exception / close / terminate / close interrupted by an asynchronous exception followed by terminate} x close_timeout {0.2, 1} x force {None, True}, each in its own session; distinct non-trivial = distinct histories')
    r = rng('c09')
    jobs = [gen_history(r) for _ in range(400 if thorough else 90)]
    # a worker that dies of its input while its child process lingers (a non-daemon thread left behind by the target)
    for kinds in (['PROCESS'], ['REMOTE'], ['PROCESS', 'REMOTE', 'THREAD'], ['PROCESS', 'PROCESS']):
        for leave in ('exit', 'close', 'terminate', 'exit-exc'):
            for tail in ([], [['run', 3, [], 0]], [['restart'], ['run', 4, [1], 1, [1]]]):
                if len(jobs) % 3 and not thorough:
                    jobs.append(None)
                    continue
                jobs.append(dict(ops=[['add', k] for k in kinds] + [['run', 5, [2], 0, [2]]] + tail + [['leave', leave]], close_timeout=r.choice([0.2, 1]), force=r.choice([None, True]) if 'THREAD' not in kinds else None))
    jobs = [j for j in jobs if j]
    # close() interrupted from outside while it waits for a worker that does not finish, then terminate()
    # (process workers only: a remote worker's control conversation can be cut in the middle by the aborted clean-up thread,
    #  after which a later terminate() may not return at all - outside the statement, which speaks about calls that return)
    for kinds in (['PROCESS'], ['PROCESS', 'PROCESS'], ['PROCESS', 'THREAD']):
        for ct in (1, 3):
            jobs.append(dict(ops=[['add', k] for k in kinds] + [['run', 3, [], 0], ['stick', 0], ['leave', 'close-interrupted']], close_timeout=ct, force=None))
    # a run left through an exception of the user's callback with results outstanding, then the pool is left / used again
    for kinds in (['PROCESS', 'REMOTE', 'THREAD'], ['PROCESS', 'PROCESS'], ['REMOTE']):
        for leave in ('exit', 'exit-exc', 'close', 'terminate'):
            jobs.append(dict(ops=[['add', k] for k in kinds] + [['run_abort', 8, 1, 2], ['leave', leave]], close_timeout=1, force=None))
        jobs.append(dict(ops=[['add', k] for k in kinds] + [['run_abort', 8, 2, 1], ['run', 5, [], 1], ['leave', 'exit']], close_timeout=1, force=None))
    wd = workdir('c09')

    def one(ij):
        i, sp = ij
        res = run_case('checks.c09:case', sp, os.path.join(wd, 'h%d' % i), timeout=400)
        cleanup(res['dir'])
        return sp, res

    for sp, res in pmap(one, list(enumerate(jobs)), 8):
        chk.case(short(sp, 500))
        chk.count('histories')
        for o in sp['ops']:
            chk.count('op_' + o[0])
        judge(chk, sp, res)
    cleanup(wd)
    chk.assumptions = ['child pids are read from worker.pid right after creation/restart; /proc state is the ground truth (zombies count as dead)',
                       'a stuck thread worker cannot be force-killed (documented) and is not counted as a leak']
    return chk.finish(min_distinct=10)


def replay(spec):
    import json
    print(json.dumps(spec, indent=1)[:5000])
    return 0
