"""C15 - load-time state patches reach only the addressed objects, leave no residue.

Monitor: the C14 arrangement grammar is dumped with the real remote_pickle and
loaded with generated patch dictionaries.  Oracle 1: the loaded graph must
equal the model (patches applied along direct opt-in children only).  Oracle 2
(history independence): the same (stream, patches) is loaded as the n-th call
of a long-lived thread after a history containing failing loads, and on a fresh
thread; outcomes must agree.  Oracle 3: concurrent loads on several threads
under a tiny switch interval must each produce their sequential result."""
import collections
import copy
import pickle
import sys
import threading

from vlib.common import Check, rng, short
from vlib import pk
from vlib.pk import LOG, canon

import pyworkers.remote_pickle as rp
from pyworkers._remote_pickle.state import RemoteState

from checks.c14 import make_variant_classes, shapes, VARIANTS


def apply_model(top, patches):
    """The statement's patch semantics on an (expected) object graph."""
    if not pk.is_optin(top):
        return
    for k, v in patches.items():
        cur = top.__dict__.get(k)
        if isinstance(v, dict) and pk.is_optin(cur):
            apply_model(cur, v)
        else:
            top.__dict__[k] = copy.deepcopy(v)


def gen_patch(r, obj, depth=0):
    p = {}
    if not pk.is_optin(obj):
        if r.random() < 0.7:
            p['x'] = r.choice([1, 'p', None])
        return p
    for k, child in list(obj.__dict__.items()):
        if k in ('_lbl', '_r'):
            continue
        x = r.random()
        if pk.is_optin(child):
            if x < 0.45 and depth < 3:
                p[k] = gen_patch(r, child, depth + 1)
            elif x < 0.6:
                p[k] = r.choice([-1, None, 'replaced'])
        else:
            if x < 0.3:
                p[k] = r.choice([42, 'patched', None, [7], {'q': 1}])
    if r.random() < 0.4:
        p['new%d' % depth] = r.choice([1, 'n', (1, 2)])
    if r.random() < 0.15:
        p['nochild'] = {'v': 1}
    return p


def patch_kind(p, obj):
    kinds = set()
    if not p:
        return 'empty'

    def go(p, o, d):
        for k, v in p.items():
            cur = o.__dict__.get(k) if pk.is_optin(o) else None
            if isinstance(v, dict) and pk.is_optin(cur):
                kinds.add('child-merge' if d == 0 else 'nested-merge')
                go(v, cur, d + 1)
            elif pk.is_optin(cur):
                kinds.add('child-replace')
            else:
                kinds.add('own-entry' if d == 0 else 'nested-entry')
    go(p, obj, 0)
    return '+'.join(sorted(kinds))


def patch_depth(p):
    return 0 if not isinstance(p, dict) else 1 + max([patch_depth(v) for v in p.values()] or [0])


def load_outcome(data, patches):
    LOG.clear()
    try:
        out = rp.loads(data, copy.deepcopy(patches)) if patches is not None else rp.loads(data)
        res = ('ok', canon(out))
    except BaseException as e:  # noqa
        res = ('exc:' + type(e).__name__, None)
    LOG.clear()
    return res


def on_fresh_thread(fn):
    box = {}
    t = threading.Thread(target=lambda: box.setdefault('r', fn()))
    t.start()
    t.join()
    return box['r']


def tl_residue():
    ac = RemoteState._active_contexts
    return sorted(k for k in ('stack', 'iter', 'ctxs') if hasattr(ac, k))


def run(tier):
    thorough = tier == 'thorough'
    chk = Check('C15', 'exploration', tier,
                'C14 arrangement grammar x generated patch dictionaries (own entries, child merge/replace, nested levels, non-existing children, container-held objects) '
                'x histories of 2-5 loads per thread (incl. corrupt streams, raising __setstate__) x concurrent loads on 4 threads; '
                'distinct non-trivial = distinct (shape, variant, patch) with a non-empty patch, distinct histories, distinct concurrent batches')
    r = rng('c15')
    registry = {}
    variants, plains = make_variant_classes(registry)
    raising = pk.make_class(dict(getstate='remote', setstate=True, statekind='dict', marker=True, raising=True, base=None, slots=None), registry)
    dict_variants = [(i, c) for i, c in enumerate(variants) if VARIANTS[i]['statekind'] == 'dict']
    corpus = []   # (data, patches, fresh outcome) for history/concurrency phases
    n_patch = 40 if thorough else 10

    # ---- 1. model conformance ------------------------------------------------
    for vi, cls in dict_variants:
        pcls = plains[0]
        names = list(shapes(lambda **a: None, lambda **a: None).keys())
        for sname in names:
            for pi in range(n_patch):
                labels = pk.Labels()

                def O(**attrs):
                    return pk.new_instance(cls, labels, **attrs)

                def P(**attrs):
                    return pk.new_instance(pcls, labels, **attrs)

                g = shapes(O, P)[sname]()
                feats = pk.features(g)
                patches = gen_patch(r, g)
                if pi == 0:
                    patches = {}
                try:
                    data = rp.dumps(g)
                except BaseException:  # noqa
                    continue
                LOG.clear()
                labels2 = pk.Labels()

                def O2(**attrs):
                    return pk.new_instance(cls, labels2, **attrs)

                def P2(**attrs):
                    return pk.new_instance(pcls, labels2, **attrs)

                expect = shapes(O2, P2)[sname]()
                apply_model(expect, patches)
                want = canon(expect)
                kind = patch_kind(patches, g)
                if patches and sname in ('top', 'top+prims', 'child1', 'child1+prims', 'chain3'):
                    # the same for a stream written with remote=False (the patches are a matter of loads, not of how the
                    # stream was written): reference = the unpatched load of that stream with the model applied to it
                    try:
                        data_f = rp.dumps(g, remote=False)
                        base = rp.loads(data_f)
                        LOG.clear()
                        apply_model(base, patches)
                        want_f = canon(base)
                        got_f = on_fresh_thread(lambda: load_outcome(data_f, patches))
                        chk.count('conformance_cases_remote_false_stream')
                        if got_f != ('ok', want_f):
                            chk.violation('patch-mismatch:remote=False-stream:%s' % pk.primary(feats), 'shape %r variant %s patches %s on a stream written with remote=False: want %s got %s' % (
                                sname, VARIANTS[vi], short(patches, 150), short(want_f, 250), short(got_f, 250)), {'shape': sname, 'variant': VARIANTS[vi], 'patches': patches})
                    except BaseException:  # noqa
                        pass
                    LOG.clear()
                got = on_fresh_thread(lambda: load_outcome(data, patches))
                chk.case((sname, vi, short(patches, 200)) if patches else None)
                chk.count('conformance_cases')
                chk.count('patchkind_' + kind)
                corpus.append((data, patches, got))
                if got[0] != 'ok':
                    sym = 'loads-raised:' + got[0][4:]
                elif got[1] != want:
                    sym = 'patch-mismatch'
                else:
                    sym = None
                if sym is None:
                    chk.count('conformance_ok')
                    if patches and len(chk.samples) < 4:
                        chk.sample({'shape': sname, 'patches': short(patches, 200), 'expected': short(want, 300), 'verdict': 'held'})
                    continue
                top = 'top-not-optin' if not pk.is_optin(g) else pk.primary(feats)
                key = '%s:%s:%s' % (sym, top, 'no-patch' if not patches else 'patched')
                chk.violation(key, 'shape %r variant %s patches %s (%s): %s; want %s got %s' % (sname, VARIANTS[vi], short(patches, 150), kind, sym, short(want, 250), short(got, 250)),
                              {'shape': sname, 'variant': VARIANTS[vi], 'patches': patches, 'patch_kind': kind, 'features': feats, 'want': short(want, 800), 'got': short(got, 800)})

    # ---- 2. history independence ---------------------------------------------
    labels = pk.Labels()
    bad_streams = [b'', b'garbage', pickle.dumps([1, 2])[:-3], rp.dumps(pk.new_instance(variants[0], labels, x=1))[:-5]]
    boom = rp.dumps(pk.new_instance(raising, labels, boom=True, x=1))
    boom_nested = rp.dumps(pk.new_instance(variants[0], labels, a=pk.new_instance(raising, labels, boom=True)))
    LOG.clear()
    failing = [(b, None) for b in bad_streams] + [(boom, None), (boom, {'x': 2}), (boom_nested, {'a': {'v': 1}, 'x': 3}), (boom_nested, None)]
    n_hist = 3000 if thorough else 400
    usable = [c for c in corpus]
    for hi in range(n_hist):
        hist = []
        for _ in range(r.randint(1, 4)):
            hist.append(r.choice(failing) if r.random() < 0.6 else r.choice(usable)[:2])
        probe = r.choice(usable)
        data, patches, fresh = probe

        def long_lived():
            outs = []
            for (d, p) in hist:
                outs.append(load_outcome(d, p)[0])
            res = load_outcome(data, patches)
            return outs, res, tl_residue()

        outs, res, residue = on_fresh_thread(long_lived)
        chk.case(('hist', hi, tuple(outs)))
        chk.count('history_cases')
        chk.count('history_with_failing_load', 1 if any(o != 'ok' for o in outs) else 0)
        if residue:
            chk.count('threadlocal_residue_diagnostic')
        if res != fresh:
            chk.violation('history-dependence:%s->%s' % (fresh[0], res[0]),
                          'loads after history %s gives %s, on a fresh thread %s' % (outs, short(res, 200), short(fresh, 200)),
                          {'history_outcomes': outs, 'patches': patches, 'fresh': short(fresh, 600), 'after_history': short(res, 600), 'residue': residue})
    chk.sample({'kind': 'history', 'example': 'loads(corrupt) -> loads(raising __setstate__) -> probe loads', 'verdict': 'compared with fresh-thread outcome'})

    # ---- 2b. the caller keeps one patch dictionary and passes it to several calls ----------
    def raw_outcome(d, p):
        LOG.clear()
        try:
            res = ('ok', canon(rp.loads(d, p)))
        except BaseException as e:  # noqa
            res = ('exc:' + type(e).__name__, None)
        LOG.clear()
        return res

    patched = [c for c in corpus if c[1]]
    for ri in range(min(len(patched), 1500 if thorough else 300)):
        data, patches, fresh = patched[ri] if ri < 60 else r.choice(patched)
        first = r.choice(['same', 'same', 'failing'])
        depth = patch_depth(patches)

        def reuse():
            mine = copy.deepcopy(patches)          # the caller's own dictionary, handed to both calls
            if first == 'same':
                o1 = raw_outcome(data, mine)[0]
            else:
                o1 = raw_outcome(r.choice([boom, boom_nested]), mine)[0]
            return o1, raw_outcome(data, mine)

        o1, res = on_fresh_thread(reuse)
        chk.case(('reuse', ri, first, o1, depth))
        chk.count('patch_dict_reuse_cases')
        if res != fresh:
            chk.violation('patch-dict-reuse-dependence:%s->%s:depth%d' % (fresh[0], res[0], min(depth, 2)),
                          'second loads with the very same patch dictionary (first call: %s, %s) gives %s, with an equal fresh dictionary %s' % (first, o1, short(res, 200), short(fresh, 200)),
                          {'patches': patches, 'first_call': first, 'first_outcome': o1, 'fresh': short(fresh, 600), 'second': short(res, 600)})

    # ---- 3. concurrent loads ----------------------------------------------------
    old = sys.getswitchinterval()
    sys.setswitchinterval(1e-6)
    try:
        n_batches = 300 if thorough else 40
        for bi in range(n_batches):
            jobs = [[r.choice(usable + [(d, p, None) for d, p in failing]) for _ in range(12)] for _ in range(4)]
            results = [None] * 4

            def work(i):
                results[i] = [load_outcome(d, p) for (d, p, _) in jobs[i]]

            ts = [threading.Thread(target=work, args=(i,)) for i in range(4)]
            for t in ts:
                t.start()
            for t in ts:
                t.join()
            chk.case(('conc', bi))
            chk.count('concurrent_batches')
            for i in range(4):
                for (d, p, fresh), got in zip(jobs[i], results[i]):
                    chk.count('concurrent_loads')
                    if fresh is not None and got != fresh:
                        chk.violation('concurrency:%s->%s' % (fresh[0], got[0]), 'concurrent loads on 4 threads: got %s, sequential fresh-thread result %s' % (short(got, 200), short(fresh, 200)),
                                      {'patches': p, 'fresh': short(fresh, 600), 'concurrent': short(got, 600)})
    finally:
        sys.setswitchinterval(old)
    chk.assumptions = ['patched objects use dict states; patch values are primitives, small containers or dicts',
                       'leftover thread-local attributes are a diagnostic counter only (the statement is behavioural)',
                       'concurrency: 4 threads, switch interval 1e-6 s (legal GIL hand-off points only)']
    return chk.finish()


def replay(spec):
    import json
    print(json.dumps(spec, indent=1)[:4000])
    return 0
