"""C18 - remote contexts are unique per id, supply their workers' work, and clean up.

Monitor: seeded histories over {create ctx i, create duplicate, delete ctx i,
delete unknown, start worker in ctx i, start worker in unknown ctx, unusable
worker request naming ctx i, enqueue, wait} on ids 0-3 (distinct target/defaults per id) against a real server;
oracle = dictionary model of the server's context table + server health."""
import os

from vlib.common import Check, rng, run_case, pmap, workdir, cleanup, short


def case(spec, log):
    import logging
    import signal
    import threading
    import time
    logging.disable(logging.CRITICAL)
    from vlib import vtargets
    from vlib.case import Bounded, HANG, Raised
    from vlib.common import pid_running, descendants
    from pyworkers.remote import RemoteWorker
    from pyworkers.persistent_remote import PersistentRemoteWorker
    from pyworkers.remote_context import RemoteContext
    from pyworkers.remote_server import spawn_server
    bounded = Bounded(log)
    server = spawn_server(('127.0.0.1', 0))
    host = server.addr
    ctxs = {}       # id -> live RemoteContext object held by this client
    workers = []    # (ctx id, generation, worker)
    gen = {}
    try:
        for step, op in enumerate(spec['ops']):
            name = op[0]
            rec = {'step': step, 'op': op}
            if name == 'create':
                i = op[1]
                r = bounded('create_ctx', lambda: RemoteContext(i, host=host, target=vtargets.ctx_target, args=[None, 'ctx%d' % i], kwargs={'mul': (i + 1) * 10}), 30)
                rec['outcome'] = 'hang' if r is HANG else ('raised:' + type(r.exc).__name__ if isinstance(r, Raised) else 'ok')
                if rec['outcome'] == 'ok':
                    ctxs[i] = r
                    gen[i] = gen.get(i, 0) + 1
            elif name == 'delete':
                i = op[1]
                c = ctxs.get(i)
                if c is None:
                    # delete of an id this client never registered / already deleted: send the raw request
                    c2 = RemoteContext.__new__(RemoteContext)
                    c2._id, c2._target_host, c2._alive, c2._remote = i, host, True, False
                    r = bounded('delete_ctx', lambda: c2.wait(), 30)
                else:
                    r = bounded('delete_ctx', lambda: c.wait(), 30)
                    if r is True:
                        ctxs.pop(i, None)
                rec['outcome'] = 'hang' if r is HANG else ('raised:' + type(r.exc).__name__ if isinstance(r, Raised) else repr(r))
            elif name == 'worker':
                i = op[1]
                r = bounded('worker_in_ctx', lambda: PersistentRemoteWorker(None, host=host, context=i), 30)
                rec['outcome'] = 'hang' if r is HANG else ('raised:' + type(r.exc).__name__ if isinstance(r, Raised) else 'ok')
                if rec['outcome'] == 'ok':
                    workers.append((i, gen.get(i, 0), r))
                    rec['alive'] = r.is_alive()
            elif name == 'enqueue':
                live = [(i, g, w) for (i, g, w) in workers if w.is_alive()]
                if live:
                    i, g, w = live[op[1] % len(live)]
                    x = op[2]
                    v = bounded('call', lambda: w.call(x), 30)
                    rec['ctx'] = i
                    rec['x'] = x
                    rec['value'] = None if v is HANG or isinstance(v, Raised) else v
                    rec['outcome'] = 'hang' if v is HANG else ('raised:' + type(v.exc).__name__ if isinstance(v, Raised) else 'value')
                else:
                    rec['outcome'] = 'no-live-worker'
            elif name == 'bad':
                # a client that names context i, announces a worker and then fails to deliver a usable request
                i, mode = op[1], op[2]
                rec['outcome'] = bad_request(host, i, mode)
                time.sleep(0.3)
            elif name == 'wait':
                live = [(i, g, w) for (i, g, w) in workers if w.is_alive()]
                if live:
                    i, g, w = live[op[1] % len(live)]
                    rec['widx'] = [k for k, t in enumerate(workers) if t[2] is w][0]
                    r = bounded('wait_worker', lambda: w.wait(10), 40)
                    rec['outcome'] = repr(r) if not (r is HANG or isinstance(r, Raised)) else 'hang-or-raise'
                    rec['has_error'] = w.has_error
                else:
                    rec['outcome'] = 'no-live-worker'
            rec['server_alive'] = pid_running(server.pid)
            # parent-side view of every worker after the step
            rec['workers'] = [(i, g, w.is_alive()) for (i, g, w) in workers]
            log.ev('step', rec=rec)
            if not rec['server_alive']:
                break
        # health probe
        box = {}

        def probe():
            try:
                p = RemoteWorker(vtargets.ret_value, args=[3], host=host)
                box['r'] = (p.wait(8), p.result)
            except BaseException as e:  # noqa
                box['e'] = repr(e)[:100]
        t = threading.Thread(target=probe, daemon=True)
        t.start()
        t.join(10)
        time.sleep(0.2)
        log.ev('end', probe=('hang' if t.is_alive() else repr(box)), server_alive=pid_running(server.pid),
               workers=[(i, g, w.is_alive(), (w.has_error if not w.is_alive() else None)) for (i, g, w) in workers])
        return {'ok': True}
    finally:
        try:
            for p in descendants(server.pid) + [server.pid]:
                os.kill(p, signal.SIGKILL)
        except OSError:
            pass


def bad_request(host, ctx_id, mode):
    """Raw client: header naming the context (worker request), then an unusable worker payload."""
    import pickle
    import socket
    import struct
    from pyworkers.remote import send_msg
    s = socket.socket(socket.AF_INET, socket.SOCK_STREAM)
    s.settimeout(5)
    try:
        s.connect(tuple(host))
        send_msg(s, (ctx_id, True), comment='verif: header')
        if mode == 'garbage':
            body = b'garbage, not a pickle'
            s.sendall(struct.pack('!I', len(body)) + body)
        elif mode == 'wrong-object':
            body = pickle.dumps(('not', 'a', 'worker'))
            s.sendall(struct.pack('!I', len(body)) + body)
        elif mode == 'unknown-class':
            import sys
            import types
            m = types.ModuleType('no_such_mod_verif')
            cls = type('NoClass', (), {'__module__': 'no_such_mod_verif'})
            m.NoClass = cls
            sys.modules['no_such_mod_verif'] = m
            try:
                body = pickle.dumps(cls())
            finally:
                del sys.modules['no_such_mod_verif']
            s.sendall(struct.pack('!I', len(body)) + body)
        elif mode == 'half-message':
            s.sendall(struct.pack('!I', 500) + b'x' * 40)
        elif mode == 'close':
            pass
        try:
            s.settimeout(0.5)
            s.recv(16)
        except OSError:
            pass
        return 'played'
    except OSError as e:
        return 'client-error:' + type(e).__name__
    finally:
        s.close()


BAD_MODES = ['garbage', 'wrong-object', 'unknown-class', 'half-message', 'close']


def gen_history(r):
    ops = []
    created = []
    for _ in range(r.randint(3, 8)):
        x = r.random()
        i = r.randint(0, 3)
        # bias towards ids that exist: several workers in one context, deletes of populated contexts
        if created and r.random() < 0.6:
            i = r.choice(created)
        if x < 0.30:
            created.append(i)
        if x < 0.30:
            ops.append(['create', i])
        elif x < 0.45:
            ops.append(['delete', i])
        elif x < 0.62:
            ops.append(['worker', i])
        elif x < 0.72:
            ops.append(['bad', i, r.choice(BAD_MODES)])
        elif x < 0.90:
            ops.append(['enqueue', r.randrange(10), r.randint(1, 9)])
        else:
            ops.append(['wait', r.randrange(10)])
    return dict(ops=ops)


def judge(chk, spec, res):
    steps = [e['rec'] for e in res['events'] if e.get('ev') == 'step']
    end = [e for e in res['events'] if e.get('ev') == 'end']
    if not steps:
        chk.inconclusive('history incomplete', {'spec': spec, 'stderr': res['stderr'][-400:], 'timed_out': res['timed_out']})
        return
    table = {}        # model of the server's context table: id -> generation
    gen = {}
    probs = []
    waited = set()
    for rec in steps:
        op = rec['op']
        name = op[0]
        chk.count('op_' + name)
        if not rec['server_alive']:
            probs.append('server-died-at-%s' % name)
            break
        if rec.get('outcome') == 'hang':
            probs.append('%s-blocks%s' % (name, '' if op[1] in table or name not in ('worker',) else '-unknown-context'))
            break
        if 'widx' in rec:
            waited.add(rec['widx'])
        # a worker ends only when it was waited for or its context was deleted
        gone = [k for k, w in enumerate(rec['workers']) if not w[2] and k not in waited and table.get(w[0]) == w[1] and not (name == 'delete' and op[1] == w[0])]
        if gone:
            probs.append('worker-ended-while-its-context-exists-after-%s' % (name if name != 'bad' else 'bad-request-' + op[2]))
            break
        if name == 'create':
            i = op[1]
            if i in table:
                if rec['outcome'] != 'raised:ValueError':
                    probs.append('duplicate-create-%s' % rec['outcome'])
            else:
                if rec['outcome'] != 'ok':
                    probs.append('create-%s' % rec['outcome'])
                else:
                    gen[i] = gen.get(i, 0) + 1
                    table[i] = gen[i]
        elif name == 'delete':
            i = op[1]
            if i in table:
                if rec['outcome'] != 'True':
                    probs.append('delete-%s' % rec['outcome'])
                g = table.pop(i, None)
                # its workers must have ended
                still = [w for w in rec['workers'] if w[0] == i and w[1] == g and w[2]]
                if still:
                    probs.append('worker-of-deleted-context-still-alive')
            else:
                if rec['outcome'] not in ('True', 'False'):
                    probs.append('delete-unknown-%s' % rec['outcome'])
        elif name == 'worker':
            i = op[1]
            if i in table:
                if rec['outcome'] != 'ok' or not rec.get('alive'):
                    probs.append('worker-in-context-%s' % rec['outcome'])
            else:
                if rec['outcome'] == 'ok' and rec.get('alive'):
                    probs.append('worker-in-unknown-context-alive')
        elif name == 'enqueue' and rec.get('outcome') == 'value':
            i = rec['ctx']
            want = ['ctx%d' % i, rec['x'] * (i + 1) * 10]
            if rec['value'] != want:
                probs.append('context-worker-computed-%s-instead-of-%s' % (short(rec['value'], 40), want))
    if end and not probs:
        e = end[0]
        for (i, g, alive, he) in e['workers']:
            if alive and table.get(i) != g:
                probs.append('worker-of-deleted-context-still-alive')
                break
        if not e['server_alive']:
            probs.append('server-died')
        elif "(True, 3)" not in e['probe']:
            probs.append('server-unusable-after-history(%s)' % e['probe'][:30])
    if probs:
        chk.violation(probs[0].split('(')[0], 'history %s: %s' % (short(spec['ops'], 300), ', '.join(probs)), {'spec': spec, 'steps': steps[-6:], 'end': end})
    elif len(chk.samples) < 4:
        chk.sample({'ops': spec['ops'], 'outcomes': [s.get('outcome') for s in steps]})


def run(tier):
    thorough = tier == 'thorough'
    chk = Check('C18', 'exploration', tier,
                'seeded histories (3-8 operations) over {create ctx i, create duplicate, delete ctx i, delete unknown, worker in ctx i, worker in unknown ctx, unusable worker request naming ctx i (garbage / wrong object / unknown class / half message / close), enqueue, wait} on ids 0-3 (0 being a falsy id) with distinct target defaults per id, '
                'each against a fresh real server; oracle = dictionary model of the context table; distinct non-trivial = distinct histories')
    r = rng('c18')
    jobs = [gen_history(r) for _ in range(300 if thorough else 60)]
    # fixed corner histories
    jobs += [dict(ops=[['create', 1], ['worker', 1], ['worker', 1], ['worker', 1], ['enqueue', 1, 2], ['delete', 1], ['create', 1], ['worker', 1], ['enqueue', 0, 4]]),
             dict(ops=[['create', 2], ['worker', 2], ['worker', 2], ['create', 3], ['worker', 3], ['delete', 2], ['enqueue', 0, 3], ['delete', 3]]),
             dict(ops=[['create', 1], ['create', 1], ['worker', 1], ['enqueue', 0, 3], ['delete', 1], ['create', 1], ['worker', 1], ['enqueue', 0, 4]]),
             dict(ops=[['worker', 2], ['delete', 2], ['create', 2], ['worker', 2], ['enqueue', 0, 5]]),
             dict(ops=[['create', 0], ['create', 1], ['worker', 0], ['worker', 1], ['enqueue', 0, 2], ['enqueue', 1, 3], ['create', 0], ['delete', 0], ['create', 0], ['worker', 0], ['enqueue', 0, 4], ['delete', 0], ['delete', 1]]),
             *[dict(ops=[['create', 1], ['worker', 1], ['enqueue', 0, 2], ['bad', 1, m], ['worker', 1], ['enqueue', 0, 3], ['enqueue', 1, 3], ['create', 1], ['delete', 1], ['create', 1], ['delete', 1]]) for m in BAD_MODES],
             *[dict(ops=[['bad', 2, m], ['create', 2], ['worker', 2], ['enqueue', 0, 2]]) for m in BAD_MODES],
             dict(ops=[['create', 1], ['create', 2], ['create', 3], ['worker', 3], ['worker', 1], ['enqueue', 0, 2], ['enqueue', 1, 2], ['delete', 3]])]
    wd = workdir('c18')

    def one(ij):
        i, sp = ij
        res = run_case('checks.c18:case', sp, os.path.join(wd, 'h%d' % i), timeout=300)
        cleanup(res['dir'])
        return sp, res

    for sp, res in pmap(one, list(enumerate(jobs)), 8):
        chk.case(short(sp['ops'], 400))
        chk.count('histories')
        judge(chk, sp, res)
    cleanup(wd)
    chk.assumptions = ['the constructor outcome for a worker in an unknown context belongs to C20; here only "not alive" and the server\'s survival are judged',
                       'every history runs against its own fresh server']
    return chk.finish(min_distinct=10)


def replay(spec):
    import json
    print(json.dumps(spec, indent=1)[:5000])
    return 0
