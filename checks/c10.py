"""C10 - message framing survives any segmentation and detects any truncation.

Monitor: the repository's own send_msg writes into a capturing socket; the real
recv_msg then reads from a scripted socket that serves the same bytes under a
chosen segmentation / truncation.  Oracle: equality with the sent messages,
exception type, and a logical spin bound (recv calls after EOF)."""
import itertools
import socket
import threading
import time

from vlib.common import Check, rng

from pyworkers.remote import send_msg, recv_msg, ConnectionClosedError

SPIN_BOUND = 1000


class SpinDetected(BaseException):
    pass


class CaptureSock:
    def __init__(self):
        self.buf = bytearray()

    def sendall(self, data):
        self.buf += data


class FakeSock:
    """recv(n) returns at most n bytes and never crosses a cut; after the last
    byte: b'' (FIN) or ConnectionResetError (RST)."""

    def __init__(self, data, cuts=(), ending='fin', maxread=None):
        self.data = bytes(data)
        self.cuts = sorted(set(c for c in cuts if 0 < c < len(self.data))) + [len(self.data)]
        self.ci = 0
        self.pos = 0
        self.ending = ending
        self.maxread = maxread
        self.calls = 0
        self.after_eof = 0

    def recv(self, n, flags=0):
        self.calls += 1
        if self.pos >= len(self.data):
            self.after_eof += 1
            if self.after_eof > SPIN_BOUND:
                raise SpinDetected()
            if self.ending == 'rst':
                raise ConnectionResetError(104, 'Connection reset by peer')
            return b''
        while self.cuts[self.ci] <= self.pos:
            self.ci += 1
        end = min(self.pos + n, self.cuts[self.ci])
        if self.maxread:
            end = min(end, self.pos + self.maxread)
        out = self.data[self.pos:end]
        self.pos = end
        return out


def encode(msgs):
    c = CaptureSock()
    bounds = [0]
    for m in msgs:
        send_msg(c, m)
        bounds.append(len(c.buf))
    return bytes(c.buf), bounds


def read_all(sock, n_expected):
    """Read n_expected messages, then one more (which must fail).  Returns
    (messages, terminal) with terminal = 'closed' | 'spin' | 'raised:<T>' | 'returned'."""
    got = []
    for _ in range(n_expected + 1):
        try:
            got.append(recv_msg(sock))
        except ConnectionClosedError:
            return got, 'closed'
        except SpinDetected:
            return got, 'spin'
        except BaseException as e:  # noqa
            return got, 'raised:' + type(e).__name__
    return got, 'returned'


def region(off, bounds):
    """Where a stream offset lies: ('boundary'|'header'|'body', message index)."""
    for i in range(len(bounds) - 1):
        b = bounds[i]
        if off == b:
            return 'boundary'
        if b < off < b + 4:
            return 'header'
        if b + 4 <= off < bounds[i + 1]:
            return 'body'
    return 'boundary'


def check_seg(chk, msgs, stream, bounds, cuts, ending='fin', maxread=None, tag=''):
    sock = FakeSock(stream, cuts, ending, maxread)
    got, term = read_all(sock, len(msgs))
    cutkinds = sorted(set(region(c, bounds) for c in cuts)) or ['none']
    if maxread:
        cutkinds = ['header', 'body']
    chk.case()
    ok = (got == msgs and term == 'closed')
    if not ok:
        if got != msgs[:len(got)]:
            sym = 'wrong-message'
        elif term != 'closed' and len(got) == len(msgs):
            sym = 'end-' + term
        else:
            sym = term if len(got) < len(msgs) else 'short'
        where = 'header-split' if 'header' in cutkinds else 'body-split'
        chk.violation('seg:%s:%s' % (where, sym),
                      'complete stream of %d message(s), %d bytes, read under segmentation %s: got %d messages then %s' % (
                          len(msgs), len(stream), (list(cuts)[:8] if not maxread else 'max %d bytes per read' % maxread), len(got), term),
                      {'kind': 'seg', 'stream_hex': stream[:64].hex(), 'stream_len': len(stream), 'bounds': bounds,
                       'cuts': list(cuts)[:50], 'maxread': maxread, 'ending': ending, 'got': len(got), 'terminal': term, 'gen': tag})
    return ok


def check_trunc(chk, msgs, stream, bounds, off, cuts=(), ending='fin', tag=''):
    sock = FakeSock(stream[:off], cuts, ending)
    complete = max(i for i in range(len(bounds)) if bounds[i] <= off)
    got, term = read_all(sock, len(msgs))
    chk.case()
    reg = region(off, bounds)
    ok = (got == msgs[:complete] and term == 'closed')
    if not ok:
        if got != msgs[:len(got)] or len(got) > complete:
            sym = 'wrong-or-partial-message'
        else:
            sym = term
        chk.violation('trunc:%s:%s:%s' % (reg, ending, sym),
                      'stream of %d bytes (message bounds %s) ended at offset %d (%s, %s): receiver got %d messages then %s; recv calls after EOF=%d' % (
                          len(stream), bounds[:6], off, reg, ending, len(got), term, sock.after_eof),
                      {'kind': 'trunc', 'stream_hex': stream[:64].hex(), 'stream_len': len(stream), 'bounds': bounds, 'off': off,
                       'cuts': list(cuts)[:20], 'ending': ending, 'got': len(got), 'terminal': term, 'gen': tag})
    return ok


def gen_payload(r, size):
    kind = r.choice(['bytes', 'str', 'list', 'dict', 'nested'])
    if kind == 'bytes':
        return r.randbytes(size)
    if kind == 'str':
        return ''.join(r.choice('abcdefghij é中') for _ in range(size // 2))
    if kind == 'list':
        return [r.randrange(1 << 30) for _ in range(max(1, size // 5))]
    if kind == 'dict':
        return {('k%d' % i): r.random() for i in range(max(1, size // 16))}
    return {'a': [r.randbytes(size // 3), (1, 2.5, None, True)], 'b': {'c': r.randbytes(size // 3), 'd': ['x' * (size // 4)]}}


def socketpair_case(chk, msgs, stream, bounds, off, r):
    """Real sockets: a sender thread dribbles stream[:off] and closes; the
    receiver must finish within a generous watchdog (expiry = hang evidence:
    the peer is closed, nothing can ever arrive)."""
    a, b = socket.socketpair()
    res = {}

    def sender():
        pos = 0
        try:
            while pos < off:
                n = r.choice([1, 1, 2, 3, 7, 100, 4096])
                a.sendall(stream[pos:min(off, pos + n)])
                pos += n
                if r.random() < 0.3:
                    time.sleep(0.0005)
        finally:
            a.close()

    def receiver():
        res['out'] = read_all(b, len(msgs))

    ts = threading.Thread(target=sender, daemon=True)
    tr = threading.Thread(target=receiver, daemon=True)
    ts.start()
    tr.start()
    tr.join(20)
    chk.case()
    complete = max(i for i in range(len(bounds)) if bounds[i] <= off)
    reg = region(off, bounds)
    if tr.is_alive():
        b.close()
        chk.violation('trunc:%s:socketpair:blocked-or-spinning' % reg,
                      'real socketpair: peer closed after %d of %d bytes, receiver still inside recv_msg after 20 s' % (off, len(stream)),
                      {'kind': 'socketpair', 'off': off, 'bounds': bounds, 'stream_len': len(stream)})
        return
    got, term = res['out']
    b.close()
    if not (got == msgs[:complete] and term == 'closed'):
        chk.violation('trunc:%s:socketpair:%s' % (reg, term if got == msgs[:len(got)] else 'wrong-message'),
                      'real socketpair: peer closed after %d of %d bytes: got %d messages then %s' % (off, len(stream), len(got), term),
                      {'kind': 'socketpair', 'off': off, 'bounds': bounds, 'stream_len': len(stream), 'terminal': term})


def run(tier):
    thorough = tier == 'thorough'
    chk = Check('C10', 'fault_enumeration', tier,
                'real send_msg output re-read by real recv_msg from a scripted socket; cases = (message sequence, segmentation or truncation offset, FIN/RST); '
                'distinct non-trivial = distinct (stream, cut set, ending) with at least one cut or a truncation; short streams enumerated exhaustively')
    r = rng('c10')
    nontrivial = set()

    def nt(*k):
        chk.distinct.add(repr(k))

    # --- A. exhaustive segmentations of short streams -------------------------
    short_sets = [[None], [0], [None, None]] if thorough else [[None], [0]]
    exhaustive_streams = 0
    for msgs in short_sets:
        stream, bounds = encode(msgs)
        n = len(stream)
        if n > 16:
            continue
        exhaustive_streams += 1
        for mask in range(1 << (n - 1)):
            cuts = [i + 1 for i in range(n - 1) if mask >> i & 1]
            check_seg(chk, msgs, stream, bounds, cuts, tag='exhaustive-seg')
            if mask:
                nt('xs', n, mask)
        for off in range(n):  # every truncation offset, both endings, a few segmentations each
            for ending in ('fin', 'rst'):
                for cuts in ([], list(range(1, off)), [c for c in (2, 5, 9) if c < off]):
                    check_trunc(chk, msgs, stream, bounds, off, cuts, ending, tag='exhaustive-trunc')
                    nt('xt', n, off, ending, tuple(cuts))
    chk.count('exhaustive_short_streams', exhaustive_streams)

    # --- B. every single cut and every pair of cuts for mid-size streams ------
    sizes = [60, 300] if thorough else [40, 120]
    for si, size in enumerate(sizes):
        msgs = [gen_payload(r, size // 2), gen_payload(r, size // 2)]
        stream, bounds = encode(msgs)
        n = len(stream)
        chk.sample({'kind': 'all single+double cuts', 'stream_len': n, 'bounds': bounds})
        for c in range(1, n):
            check_seg(chk, msgs, stream, bounds, [c], tag='single-cut')
            nt('b1', si, c)
        for c1, c2 in itertools.combinations(range(1, n), 2):
            check_seg(chk, msgs, stream, bounds, [c1, c2], tag='double-cut')
            nt('b2', si, c1, c2)
        for off in range(n):
            for ending in ('fin', 'rst'):
                check_trunc(chk, msgs, stream, bounds, off, [], ending, tag='every-offset')
                nt('bt', si, off, ending)
                if off > 2:
                    cuts = sorted(r.sample(range(1, off), min(off - 1, 3)))
                    check_trunc(chk, msgs, stream, bounds, off, cuts, ending, tag='every-offset+cuts')

    # --- C. one byte per read --------------------------------------------------
    for size in ([10, 1000, 8000] if thorough else [10, 2000]):
        msgs = [gen_payload(r, size) for _ in range(r.randint(1, 4))]
        stream, bounds = encode(msgs)
        check_seg(chk, msgs, stream, bounds, [], maxread=1, tag='one-byte-reads')
        nt('c', size)
        check_seg(chk, msgs, stream, bounds, [], maxread=3, tag='three-byte-reads')
        nt('c3', size)

    # --- D. long streams: seeded random cuts, MSS-like segments, truncations --
    nlong = 40 if thorough else 8
    for li in range(nlong):
        nm = r.randint(1, 4)
        msgs = [gen_payload(r, r.choice([0, 1, 100, 5000, 65535, 65536, 65537, 200_000, 400_000])) for _ in range(nm)]
        stream, bounds = encode(msgs)
        n = len(stream)
        chk.sample({'kind': 'long', 'messages': nm, 'stream_len': n, 'bounds': bounds}, limit=8)
        for rep in range(6 if thorough else 3):
            k = r.choice([1, 2, 5, 50, 400])
            cuts = sorted(r.sample(range(1, n), min(n - 1, k)))
            check_seg(chk, msgs, stream, bounds, cuts, tag='random-cuts')
            nt('d', li, rep)
        check_seg(chk, msgs, stream, bounds, list(range(1448, n, 1448)), tag='mss-1448')
        nt('dm', li)
        # cuts hugging every header
        hug = sorted(set(c for b in bounds[:-1] for c in (b + 1, b + 2, b + 3, b + 4, b + 5) if 0 < c < n))
        check_seg(chk, msgs, stream, bounds, hug, tag='header-hugging')
        nt('dh', li)
        offs = set()
        for b in bounds:
            offs.update(o for o in range(b - 8, b + 9) if 0 <= o < n)
        offs.update(r.randrange(n) for _ in range(30 if thorough else 10))
        for off in sorted(offs):
            ending = r.choice(['fin', 'rst'])
            cuts = sorted(r.sample(range(1, max(2, off)), min(max(0, off - 1), r.choice([0, 1, 4]))))
            check_trunc(chk, msgs, stream, bounds, off, cuts, ending, tag='long-trunc')
            nt('dt', li, off, ending)

    # --- E. real socketpair with a dribbling sender that closes early ---------
    if thorough:
        for si in range(30):
            msgs = [gen_payload(r, r.choice([0, 10, 3000])) for _ in range(r.randint(1, 3))]
            stream, bounds = encode(msgs)
            off = r.choice([r.randrange(len(stream) + 1), bounds[r.randrange(len(bounds))], min(len(stream), bounds[r.randrange(len(bounds) - 1)] + r.randint(1, 6))])
            socketpair_case(chk, msgs, stream, bounds, off, r)
            nt('e', si)

    chk.extra['exhaustive'] = True
    chk.extra['exhaustive_note'] = 'all 2^(n-1) segmentations and all truncation offsets of the short streams (<=16 bytes); all single and double cuts and all truncation offsets of the mid-size streams; long streams sampled'
    chk.assumptions = ['a transport is modelled by recv(n) returning 1..n bytes and b"" / ConnectionResetError at end of stream',
                       'spin = more than %d recv calls after end of stream' % SPIN_BOUND]
    return chk.finish()


def replay(spec):
    import json
    print(json.dumps(spec, indent=1)[:3000])
    w = spec['witness']
    print('re-run: the witness records the generator tag, stream bounds and cut list; run ./check C10 with VERIF_SEED=%s to regenerate' % spec.get('seed'))
    return 0
