"""C16 - user_state is synchronised child-to-parent at end of life, and only then.

Monitor: stateful subclasses of the six worker classes run a script of
child-side assignments (each logged with its sequence number) and end by
return / exception / a graceful terminate delivered at enumerated eval-breaker
points inside the work; the parent's user_state is read (a) while the child is
provably alive (parked at the landing point), (b) FIRST after death - before
any other accessor, (c) by the next incarnation after restart()/re-creation."""
import os

from vlib import lpi
from vlib.common import Check, rng, run_case, pmap, workdir, cleanup, short
from vlib.vstate import decode
from checks import lp

CLASSES = ['StatefulThreadWorker', 'StatefulProcessWorker', 'StatefulRemoteWorker',
           'StatefulPersistentThreadWorker', 'StatefulPersistentProcessWorker', 'StatefulPersistentRemoteWorker']
VALUES = [None, 0, 7, -1.5, 'text', '', [1, [2, None]], {'k': [1, 2]}, {'__val__': [3, 'x']}, True]


def kind_of(cls):
    return cls.replace('Stateful', '').replace('Worker', '')


def rv(v):
    return repr(decode(v))


def evs(res, name):
    return [e for e in res['events'] if e.get('ev') == name]


def judge(chk, cls, spec, res, expect_last, init, mech, provably_alive=False, must_report=True):
    """expect_last: repr of the last value assigned in the child (or init)."""
    dg = lp.digest(dict(res=res))
    if dg['fatal'] or dg['timed_out']:
        chk.inconclusive('case did not complete (%s)' % (dg['fatal'] or 'watchdog'), {'spec': spec, 'stderr': res['stderr'][-400:], 'hangs': dg['hangs']})
        return
    probs = []
    is_thread = 'Thread' in cls
    for e in evs(res, 'state_alive'):
        if e['alive'] and not is_thread and (provably_alive or e['at_point']) and e['value']['repr'] != rv(init):
            probs.append('alive-parent-sees-other-than-init(%s)' % e['value']['repr'][:20])
        if e['alive'] and not is_thread:
            chk.count('alive_state_reads')
    for name in ('state_set_from_parent', 'state_set_from_parent_dead'):
        for e in evs(res, name):
            chk.count('parent_assignments_tried')
            if not e['rejected']:
                probs.append('parent-assignment-not-rejected')
    first = evs(res, 'state_first')
    if first and must_report:
        chk.count('state_first_reads')
        if first[0]['value']['repr'] != expect_last:
            probs.append('state-stale-when-read-first-after-death')
        for o in dg['observations']:
            us = o.get('user_state')
            if isinstance(us, dict) and us.get('repr') != expect_last and 'state-stale-when-read-first-after-death' not in probs:
                probs.append('state-wrong-after-death')
                break
    elif not first:
        chk.count('death_not_observed')
    # chain
    prev = expect_last
    hops = evs(res, 'incarnation_first_result')
    after = evs(res, 'state_after_hop')
    for h, e in enumerate(hops):
        chk.count('chain_hops')
        val = e['value']
        if not (isinstance(val, list) and len(val) == 3 and val[0] == 'seen'):
            probs.append('next-incarnation-no-result')
            break
        if val[1] != prev:
            probs.append('next-incarnation-not-started-from-last-synchronised(%s)' % val[1][:20])
            break
        exp_after = rv(spec['chain_values'][h][-1]) if spec['chain_values'][h] else prev
        if h < len(after) and after[h]['value']['repr'] != exp_after:
            probs.append('state-wrong-after-hop')
            break
        prev = exp_after
    if probs:
        chk.violation('%s:%s:%s' % (probs[0].split('(')[0], kind_of(cls), mech), '%s %s: %s; expected last=%s init=%s; state_first=%s' % (cls, mech, ', '.join(probs), expect_last, rv(init), first[0]['value'] if first else None),
                      {'spec': spec, 'state_first': first[:1], 'state_alive': evs(res, 'state_alive'), 'hops': hops, 'after': after, 'observations': dg['observations'][:2], 'point': dg['point'], 'stderr': res['stderr'][-300:]})
    elif len(chk.samples) < 5:
        chk.sample({'cls': cls, 'fault': mech, 'init': rv(init), 'expected_last': expect_last, 'state_first': first[0]['value']['repr'] if first else None, 'hops': [h['value'] for h in hops]})


def make_spec(cls, r, init, values, ending, chain):
    pers = 'Persistent' in cls
    spec = dict(cls=cls, target='ret_value', init_state=decode(init) if False else None, quiet=False, state_probe=True)
    spec['init_state_json'] = init
    if pers:
        # split the assignments over 1-3 inputs
        k = r.randint(1, 3)
        chunks = [values[i::k] for i in range(k)]
        order = []
        for c in chunks:
            order += c
        spec['inputs'] = [['$DIR', c, 'return'] for c in chunks[:-1]] + [['$DIR', chunks[-1], ending]]
        spec['targs'] = []
        values_in_order = order
    else:
        spec['targs'] = ['$DIR', values, ending]
        values_in_order = values
    spec['chain'] = chain
    spec['chain_values'] = [[r.choice(VALUES) for _ in range(r.randint(0, 2))] for _ in range(chain)]
    spec['chain_inputs'] = [['$DIR', cv, 'return'] for cv in spec['chain_values']]
    return spec, values_in_order


def run(tier):
    thorough = tier == 'thorough'
    chk = Check('C16', 'fault_enumeration', tier,
                'six stateful worker classes x init values (None, scalars, containers, custom objects) x 0-10 child-side assignments x endings {return, exception, result that cannot be pickled, graceful terminate at enumerated eval-breaker points inside the work} '
                'x chains of <=3 restarts / re-creations; distinct non-trivial = distinct (class, ending or landing point, assignment count, chain length)')
    r = rng('c16')
    wd = workdir('c16')
    jobs = []
    n = 40 if thorough else 10
    for cls in CLASSES:
        for i in range(n):
            init = r.choice(VALUES)
            values = [r.choice(VALUES) for _ in range(r.choice([0, 1, 1, 2, 3, 5, 10]))]
            ending = r.choice(['return', 'return', 'raise'])
            chain = r.choice([0, 0, 1, 2, 3])
            spec, vio = make_spec(cls, r, init, values, ending, chain)
            jobs.append((cls, spec, init, vio, ending))
        if 'Thread' not in cls:
            # the work succeeds but its result cannot be sent: the child ends by itself with a failure report
            for i in range(4 if thorough else 2):
                init = r.choice(VALUES)
                values = [r.choice(VALUES) for _ in range(r.choice([1, 2, 3]))]
                spec, vio = make_spec(cls, r, init, values, 'return-unpicklable', r.choice([0, 1]))
                jobs.append((cls, spec, init, vio, 'return-unpicklable'))

    def one(job):
        cls, spec, init, vio, ending = job
        res = run_case('checks.c16:case', spec, os.path.join(wd, 'p_%s_%d' % (cls, id(spec))), timeout=180)
        cleanup(res['dir'])
        return job, res

    for job, res in pmap(one, jobs, 10):
        cls, spec, init, vio, ending = job
        exp = rv(vio[-1]) if vio else rv(init)
        chk.case((cls, ending, len(vio), spec['chain'], rv(init)))
        chk.count('plain_cases')
        judge(chk, cls, spec, res, exp, init, 'ending=' + ending)

    # graceful terminate at enumerated points inside the work (after the last assignment)
    tjobs = []
    for cls in CLASSES:
        init = r.choice(VALUES[1:])
        values = [r.choice(VALUES) for _ in range(r.choice([1, 2, 4]))]
        spec, vio = make_spec(cls, r, init, values, 'loop', 0)
        a = lp.arm_args(cls.replace('Stateful', ''))
        arm_cls = a['arm_cls'] if 'Thread' in cls else cls
        tr, rres = lpi.record(spec, os.path.join(wd, 'rec_' + cls), files=a['files'], arm_func=a['arm_func'], arm_cls=arm_cls, arm_caller=a.get('arm_caller'), case_target='checks.c16:case')
        loop_events = [e for e in tr if e.get('file') == 'vstate.py' and e.get('func') == 'run' and e.get('kind') in lpi.EBP_KINDS]
        # only points after the last assignment: the loop part (after the 'entered' marker call)
        entered_idx = max([e['i'] for e in tr if e.get('file') == 'vtargets.py' and e.get('func') == 'mark'] or [0])
        pts = [e['i'] for e in loop_events if e['i'] > entered_idx]
        if not pts:
            chk.inconclusive('no landing points recorded inside the work for %s' % cls, {'trace_len': len(tr), 'stderr': rres['stderr'][-400:]})
            continue
        sel = pts if thorough else sorted(set(pts[:3] + pts[-3:] + r.sample(pts, min(4, len(pts)))))
        for k in sel:
            tjobs.append((cls, spec, init, vio, k, lpi.at_of(tr, k), a, arm_cls))

    def tone(job):
        cls, spec, init, vio, k, at, a, arm_cls = job
        sp = dict(spec)
        sp['action'] = dict(kind='terminate', timeout=8, force=False)
        res = lpi.act(sp, os.path.join(wd, 't_%s_%d' % (cls, k)), k, at=at, files=a['files'], arm_func=a['arm_func'], arm_cls=arm_cls, arm_caller=a.get('arm_caller'), await_s=2, case_target='checks.c16:case')
        cleanup(res['dir'])
        return job, res

    for job, res in pmap(tone, tjobs, 12):
        cls, spec, init, vio, k, at, a, arm_cls = job
        dg = lp.digest(dict(res=res))
        if dg['point'] is None or 'landed' not in dg['injector']:
            chk.count('point_not_reached_or_request_not_delivered')
            continue
        chk.case((cls, 'terminate', k))
        chk.count('terminate_cases')
        judge(chk, cls, spec, res, rv(vio[-1]), init, 'terminate-inside-work', provably_alive=True)
    # restart() of a persistent worker that is still busy: restart has to terminate it first; the graceful
    # terminate lets the child report, so the next incarnation must start from the last value assigned
    bjobs = []
    for cls in [c for c in CLASSES if 'Persistent' in c]:
        for i in range(6 if thorough else 2):
            init = r.choice(VALUES)
            values = [r.choice(VALUES) for _ in range(r.choice([1, 2, 3]))]
            bjobs.append(dict(cls=cls, init_state_json=init, values=values, hops=r.choice([1, 2])))
        if 'Thread' not in cls:
            # the child is killed while busy (no report possible): the next incarnation starts from what was synchronised before
            for modes in (['kill'], ['busy', 'kill'], ['kill', 'busy'], ['busy', 'kill', 'kill']) if thorough else (['kill'], ['busy', 'kill', 'busy']):
                bjobs.append(dict(cls=cls, init_state_json=r.choice(VALUES), values=[r.choice(VALUES) for _ in range(2)], hops=len(modes), modes=modes))

    def bone(ij):
        i, sp = ij
        res = run_case('checks.c16:busy_restart_case', sp, os.path.join(wd, 'b%d' % i), timeout=180)
        cleanup(res['dir'])
        return sp, res

    for sp, res in pmap(bone, list(enumerate(bjobs)), 8):
        chk.case((sp['cls'], 'busy-restart', len(sp['values']), sp['hops'], rv(sp['init_state_json']), tuple(sp.get('modes') or ())))
        chk.count('busy_restart_cases')
        hops = [e for e in res['events'] if e.get('ev') == 'busy_hop']
        if not hops:
            hangs = [e for e in res['events'] if e.get('ev') == 'hang']
            chk.inconclusive('busy-restart case incomplete', {'spec': sp, 'stderr': res['stderr'][-400:], 'hangs': hangs[:1]})
            continue
        for h in hops:
            probs = []
            if h['outcome'] != 'returned':
                probs.append('restart-%s' % h['outcome'])
            else:
                if h['parent_state'] != h['expected']:
                    probs.append('parent-state-after-restart-not-last-assigned(%s)' % h['parent_state'][:20])
                if h['seen_by_next'] != h['expected']:
                    probs.append('next-incarnation-not-started-from-last-synchronised(%s)' % str(h['seen_by_next'])[:20])
            if probs:
                how = 'killed-then-restart' if h.get('mode') == 'kill' else 'busy-restart'
                chk.violation('%s:%s:%s' % (probs[0].split('(')[0], kind_of(sp['cls']), how), '%s restarted %s (hop %d): %s; expected %s' % (
                    sp['cls'], 'after its child was killed' if h.get('mode') == 'kill' else 'while busy', h['hop'], ', '.join(probs), h['expected']), {'spec': sp, 'hop': h})
                break
    # the child has reported but its process lingers: process kinds (the outcome of a remote worker becomes visible as soon
    # as it has arrived, whatever the child process does afterwards - see DESIGN, observations)
    ljobs = [dict(cls=cls, init_state_json=r.choice(VALUES), values=[r.choice(VALUES) for _ in range(3)], wait=wt)
             for cls in ('StatefulProcessWorker', 'StatefulPersistentProcessWorker') for wt in ((0.5, 1.0, 1.5) if thorough else (0.5, 1.2))]

    def lone(ij):
        i, sp = ij
        res = run_case('checks.c16:linger_case', sp, os.path.join(wd, 'l%d' % i), timeout=120)
        cleanup(res['dir'])
        return sp, res

    for sp, res in pmap(lone, list(enumerate(ljobs)), 6):
        chk.case((sp['cls'], 'linger', sp['wait'], rv(sp['init_state_json'])))
        chk.count('lingering_child_cases')
        obs = [e for e in res['events'] if e.get('ev') == 'linger_obs']
        fin = [e for e in res['events'] if e.get('ev') == 'linger_final']
        if not obs or not fin:
            chk.inconclusive('lingering-child case incomplete', {'spec': sp, 'stderr': res['stderr'][-400:]})
            continue
        probs = []
        for o in obs:
            if o['is_alive'] and o['pid_running']:
                chk.count('reads_while_reported_but_alive')
                if o['user_state']['repr'] != rv(sp['init_state_json']):
                    probs.append('alive-parent-sees-other-than-init')
                    break
        if not probs and (not fin[0]['dead'] or fin[0]['user_state']['repr'] != rv(sp['values'][-1])):
            probs.append('state-wrong-after-death')
        if probs:
            chk.violation('%s:%s:reported-but-process-lingers' % (probs[0], kind_of(sp['cls'])), '%s whose child has reported and lingers, timed wait %.1f s: %s; observations %s' % (
                sp['cls'], sp['wait'], ', '.join(probs), short([(o['is_alive'], o['user_state']['repr'], o['has_error']) for o in obs], 200)), {'spec': sp, 'obs': obs, 'final': fin})
    # the final state is slow to arrive: polling with short timed waits and is_alive()
    sjobs = [dict(cls=cls, wait=wt) for cls in ('StatefulProcessWorker', 'StatefulRemoteWorker', 'StatefulPersistentProcessWorker', 'StatefulPersistentRemoteWorker') for wt in ((0.05, 0.3) if not thorough else (0.02, 0.05, 0.3, 0.6))]

    def sone(ij):
        i, sp = ij
        res = run_case('checks.c16:slowstate_case', sp, os.path.join(wd, 's%d' % i), timeout=180)
        cleanup(res['dir'])
        return sp, res

    for sp, res in pmap(sone, list(enumerate(sjobs)), 6):
        chk.case((sp['cls'], 'slow-state', sp['wait']))
        chk.count('slow_state_cases')
        ev = [e for e in res['events'] if e.get('ev') == 'slowstate']
        fin = [e for e in res['events'] if e.get('ev') == 'slowstate_final']
        if not ev or not fin:
            chk.inconclusive('slow-state case incomplete', {'spec': sp, 'stderr': res['stderr'][-400:]})
            continue
        want = 'SlowBox(7)'
        probs = []
        if ev[0]['user_state']['repr'] != want:
            probs.append('state-stale-when-read-first-after-death')
        elif fin[0]['user_state']['repr'] != want:
            probs.append('state-wrong-after-death')
        if probs:
            chk.violation('%s:%s:final-state-slow-to-arrive' % (probs[0], kind_of(sp['cls'])), '%s, final state needs 0.8 s to be rebuilt, polled with wait(%.2f)/is_alive(): %s; polls %s, state read %s' % (
                sp['cls'], sp['wait'], ', '.join(probs), ev[0]['polls'], ev[0]['user_state']['repr']), {'spec': sp, 'events': ev + fin})
    cleanup(wd)
    chk.assumptions = ['thread kinds are exempt from the "parent sees the initial value while alive" half (shared memory, documented)',
                       'terminate landings inside the reporting code itself are left to C01/C03 (the statement says "in any way that lets it report")',
                       'values are compared through repr()']
    return chk.finish(min_distinct=30)


def slowstate_case(spec, log):
    """The final state takes a while to be rebuilt in the parent: a short timed wait gives up, and whatever then says the
    worker is dead must be followed by the final state."""
    import logging
    import time
    logging.disable(logging.CRITICAL)
    from vlib import vtargets
    from vlib.case import Bounded, HANG, Raised
    from vlib.wcase import get_class, enc
    bounded = Bounded(log)
    cls, pers = get_class(spec['cls'])
    server = None
    kw = {}
    if 'Remote' in spec['cls']:
        from pyworkers.remote_server import spawn_server
        server = spawn_server(('127.0.0.1', 0))
        kw['host'] = server.addr
    try:
        values = [1, {'__slowbox__': 7}]
        w = cls(vtargets.ret_value, args=([] if pers else [None, values, 'return']), init_state='init', **kw)
        if pers:
            w.enqueue(None, values, 'return')
            w.close()
        time.sleep(0.3)
        t0 = time.monotonic()
        seen = []
        while time.monotonic() - t0 < 10:
            r = bounded('timed_wait', lambda: w.wait(spec['wait']), 30)
            alive = w.is_alive()
            seen.append((r if isinstance(r, bool) else repr(r), alive))
            if r is True or alive is False:
                break
        log.ev('slowstate', polls=seen[-6:], n_polls=len(seen), user_state=enc(w.user_state), has_error=w.has_error)
        r = bounded('wait', lambda: w.wait(20), 40)
        log.ev('slowstate_final', dead=(r is True), user_state=enc(w.user_state))
        if pers and spec.get('restart'):
            rr = bounded('restart', lambda: w.restart(timeout=5), 60)
            w.enqueue(None, [], 'return')
            v = bounded('next_result', lambda: w.next_result(), 30)
            log.ev('slowstate_restart', seen_by_next=(v[1] if isinstance(v, list) and len(v) == 3 else repr(getattr(v, 'exc', v))))
            w.wait(10)
        return {'ok': True}
    finally:
        if server is not None:
            try:
                server.terminate(timeout=1, force=True)
            except BaseException:  # noqa
                pass


def linger_case(spec, log):
    """The child has done its work and sent its report, but its process is still there (a non-daemon thread left behind by
    the work): a timed wait() gives up, and until the process is really gone the parent must keep seeing the initial state."""
    import logging
    import time
    logging.disable(logging.CRITICAL)
    from vlib import vtargets
    from vlib.case import Bounded, HANG, Raised
    from vlib.common import pid_running
    from vlib.wcase import get_class, enc
    bounded = Bounded(log)
    cls, pers = get_class(spec['cls'])
    w = cls(vtargets.ret_value, args=([] if pers else [None, spec['values'], 'return-linger']), init_state=decode(spec['init_state_json']))
    if pers:
        w.enqueue(None, spec['values'], 'return-linger')
        w.close()
    r = bounded('timed_wait', lambda: w.wait(spec['wait']), 30)
    for i in range(4):
        alive = w.is_alive()
        running = pid_running(w.pid)
        log.ev('linger_obs', n=i, timed_wait=(r if isinstance(r, bool) else repr(r)), is_alive=alive, pid_running=running, user_state=enc(w.user_state), has_error=w.has_error)
        time.sleep(0.2)
    r = bounded('wait', lambda: w.wait(20), 40)
    log.ev('linger_final', dead=(r is True), user_state=enc(w.user_state), has_error=w.has_error)
    return {'ok': True}


def spec_for_lifecycle(spec):
    sp = dict(spec)
    sp['init_state'] = decode(spec['init_state_json'])
    return sp


def case(spec, log):
    """Case-process wrapper: decode the init state (custom objects), then run the generic life cycle."""
    from vlib import wcase
    sp = dict(spec)
    sp['init_state'] = decode(spec['init_state_json'])
    return wcase.lifecycle(sp, log)


def replay(spec):
    import json
    print(json.dumps(spec, indent=1)[:6000])
    return 0


def busy_restart_case(spec, log):
    import logging
    import time
    logging.disable(logging.CRITICAL)
    from vlib import vtargets
    from vlib.case import Bounded, HANG, Raised
    from vlib.wcase import get_class
    bounded = Bounded(log)
    cls, _ = get_class(spec['cls'])
    d = spec['dir']
    server = None
    kw = {}
    if 'Remote' in spec['cls']:
        from pyworkers.remote_server import spawn_server
        server = spawn_server(('127.0.0.1', 0))
        kw['host'] = server.addr
    try:
        w = cls(vtargets.ret_value, init_state=decode(spec['init_state_json']), **kw)
        values = spec['values']
        synced = rv(spec['init_state_json'])        # last state the parent and the child agreed on
        for hop in range(spec['hops']):
            mode = (spec.get('modes') or ['busy'] * 8)[hop]
            md = os.path.join(d, 'm%d' % hop)
            os.makedirs(md, exist_ok=True)
            vals = values if hop == 0 else [{'__val__': [hop, 'h']}, hop * 11]
            w.enqueue(md, vals, 'hang')
            t0 = time.monotonic()
            while time.monotonic() - t0 < 10 and not os.path.exists(os.path.join(md, 'hanging')):
                time.sleep(0.005)
            time.sleep(0.05)
            if mode == 'kill':
                # the child dies without any chance to report: nothing newer than `synced` was ever synchronised
                import signal
                os.kill(w.pid, signal.SIGKILL)
                time.sleep(0.2)
                expected = synced
            else:
                expected = rv(vals[-1])
            a = {'timeout': 0.3}
            r = bounded('restart', lambda: w.restart(**a), 60)
            if r is HANG or isinstance(r, Raised):
                log.ev('busy_hop', hop=hop, mode=mode, outcome=('hang' if r is HANG else 'raised:' + type(r.exc).__name__), expected=expected)
                break
            synced = expected
            parent_state = repr(w.user_state)
            md2 = os.path.join(d, 'p%d' % hop)
            os.makedirs(md2, exist_ok=True)
            w.enqueue(md2, [], 'return')
            v = bounded('next_result', lambda: w.next_result(), 30)
            seen = v[1] if isinstance(v, list) and len(v) == 3 else repr(getattr(v, 'exc', v))
            log.ev('busy_hop', hop=hop, mode=mode, outcome='returned', parent_state=parent_state, seen_by_next=seen, expected=expected)
        return {'ok': True}
    finally:
        try:
            if w.is_alive():
                w.terminate(timeout=1, **({'force': False} if 'Thread' in spec['cls'] or 'Remote' in spec['cls'] else {}))
        except BaseException:  # noqa
            pass
        if server is not None:
            try:
                server.terminate(timeout=1, force=True)
            except BaseException:  # noqa
                pass
