"""C17 - restart() always yields a fresh, equivalent, live worker.

Monitor: persistent workers are brought into a state (never used, results
unread, inputs queued, closed, died by exception, killed by signal,
uncooperative target), restarted 1-3 times (own pipe or caller-supplied Pipe as
the Pool does) and probed: liveness, identity, name/userid/defaults (through a
probe input), raw first message of the new stream (counter 1, new id, value of
a new-incarnation input), OS liveness of the old child pid."""
import os

from vlib.common import Check, rng, run_case, pmap, workdir, cleanup, short

CLASSES = ['PersistentThreadWorker', 'PersistentProcessWorker', 'PersistentRemoteWorker']
STATES = ['never-used', 'results-unread', 'inputs-queued', 'closed', 'died-by-exception', 'killed', 'uncooperative', 'busy', 'slow-exit', 'slow-results', 'died-by-unrebuildable-exception', 'busy-blocking', 'stopped', 'holding-gil']


def kind_of(cls):
    return cls.replace('Worker', '')


def case(spec, log):
    import logging
    import signal
    import time
    logging.disable(logging.CRITICAL)
    from vlib import vtargets
    from vlib.case import Bounded, HANG, Raised
    from vlib.common import pid_running
    from vlib.wcase import get_class
    from pyworkers.utils import Pipe
    bounded = Bounded(log)
    cls, _ = get_class(spec['cls'])
    server = None
    kw = {}
    if 'Remote' in spec['cls']:
        from pyworkers.remote_server import spawn_server
        server = spawn_server(('127.0.0.1', 0))
        kw['host'] = server.addr
    state = spec['state']
    own = 'Thread' in spec['cls']
    try:
        target = vtargets.restart_target
        pipe0 = Pipe() if spec['supplied_pipe'] else None
        if state == 'slow-exit':
            if not own:
                return {'skipped': 'slow-exit is a thread-kind state'}
            from vlib.vstate import SlowCleanupPersistentThreadWorker
            cls = SlowCleanupPersistentThreadWorker
        w = cls(target, args=['D1', 'D2'], kwargs={'dk': 5}, name=spec.get('name', 'wname'), userid=spec.get('userid', 77), results_pipe=pipe0, **kw)
        inc = 0
        uid = 0

        def enq(kind='ok', **extra):
            nonlocal uid
            uid += 1
            w.enqueue('i%d.%d' % (inc, uid), kind=kind, **extra)
            return 'i%d.%d' % (inc, uid)

        # bring into the state
        if state == 'results-unread':
            enq(); enq()
            time.sleep(0.3)
        elif state == 'inputs-queued':
            enq(kind='slow'); enq(); enq()
        elif state == 'closed':
            enq()
            w.close()
            time.sleep(0.2)
        elif state == 'died-by-exception':
            enq(kind='raise')
            time.sleep(0.4)
        elif state == 'died-by-unrebuildable-exception':
            # nobody looks at error/result/has_error before restart()
            enq(kind='raise2')
            time.sleep(0.4)
        elif state == 'killed':
            if own:
                enq(kind='raise')
                time.sleep(0.3)
            else:
                enq(kind='slow')
                time.sleep(0.1)
                os.kill(w.pid, signal.SIGKILL)
                time.sleep(0.2)
        elif state == 'uncooperative':
            enq(kind='swallow')
            time.sleep(0.3)
        elif state == 'slow-exit':
            enq(kind='raise')
            time.sleep(0.3)     # outcome recorded, thread still inside its (slow) cleanup
        elif state == 'slow-results':
            # computed at once, but each result takes 0.7 s to rebuild on the receiving side: the old
            # incarnation's results are still arriving when restart() is called
            enq(kind='slowbox'); enq(kind='slowbox'); enq(kind='slowbox')
            time.sleep(0.3)
        elif state in ('stopped', 'holding-gil'):
            # the child cannot even look at a termination request: restart has to fall back on force (process/remote kinds)
            if own:
                return {'skipped': 'not a thread-kind state'}
            enq(kind=('slow' if state == 'stopped' else 'gil'))
            time.sleep(0.3)
            if state == 'stopped':
                os.kill(w.pid, signal.SIGSTOP)
                time.sleep(0.3)
        elif state == 'busy-blocking':
            # busy in one blocking call after the other: a termination request is noticed within ~0.4 s, i.e. the
            # worker can be stopped, only not within a very short restart timeout
            enq(kind='block'); enq(kind='block'); enq(kind='block')
            time.sleep(0.05)
        elif state == 'busy':
            enq(kind='slow')
            time.sleep(0.05)
        for hop in range(spec['restarts']):
            old_id = w.id
            old_pid = w.pid
            old_thread = w._child if own else None      # observation only: is the old incarnation's thread gone?
            newpipe = Pipe() if spec['supplied_pipe'] else None
            r = bounded('restart', lambda: w.restart(timeout=spec['timeout'], results_pipe=newpipe), 60)
            inc += 1
            if r is HANG:
                log.ev('hop', hop=hop, outcome='hang')
                return {'fatal': 'restart hang'}
            old_running = pid_running(old_pid) if not own else old_thread.is_alive()
            if isinstance(r, Raised):
                log.ev('hop', hop=hop, outcome='raised:' + type(r.exc).__name__, msg=str(r.exc)[:100], old_pid_running=old_running)
                break
            alive = w.is_alive()
            new_id = w.id
            # nothing was enqueued yet: the new stream must stay empty (the old incarnation may still be winding down)
            ep = w.results_endpoint
            stray = None
            if bounded('stray_poll', lambda: ep.poll(spec.get('stray_window', 0.05)), 20) is True:
                sm = bounded('stray_get', lambda: ep.get(), 20)
                stray = repr(sm)[:160]
            # raw first message of the new stream
            probe = enq()
            raw = bounded('raw_first', lambda: ep.get(), 20)
            first = None if raw is HANG or isinstance(raw, Raised) else [raw[0], raw[1], raw[2], list(raw[3]) if raw[3] else raw[3]]
            log.ev('hop', hop=hop, outcome='returned', alive=alive, old_id=list(old_id), new_id=list(new_id), old_pid_running=old_running, name=w.name, userid=w.userid,
                   probe=probe, first=first, stray=stray, raw_fail=(None if first else ('hang' if raw is HANG else repr(raw.exc)[:80])), own_process=own)
            # leave some unread results / queued work for the next hop
            if hop + 1 < spec['restarts']:
                nxt = spec['between'][hop]
                if nxt == 'unread':
                    enq(); time.sleep(0.1)
                elif nxt == 'queued':
                    enq(kind='slow'); enq()
                elif nxt == 'dead':
                    enq(kind='raise'); time.sleep(0.3)
        return {'ok': True}
    finally:
        try:
            if w.is_alive():
                w.terminate(timeout=1, **({'force': False} if own or 'Remote' in spec['cls'] else {}))
        except BaseException:  # noqa
            pass
        if server is not None:
            try:
                server.terminate(timeout=1, force=True)
            except BaseException:  # noqa
                pass


def judge(chk, spec, res):
    cls, state = spec['cls'], spec['state']
    hops = [e for e in res['events'] if e.get('ev') == 'hop']
    if not hops and (res['result'] or {}).get('skipped'):
        return
    if not hops:
        hangs = [e for e in res['events'] if e.get('ev') == 'hang']
        chk.inconclusive('no restart observed', {'spec': spec, 'stderr': res['stderr'][-500:], 'hangs': hangs[:1], 'timed_out': res['timed_out']})
        return
    for h in hops:
        chk.count('restarts_observed')
        probs = []
        if h['outcome'] == 'hang':
            hang = [e for e in res['events'] if e.get('ev') == 'hang']
            probs.append('restart-blocks')
        elif h['outcome'].startswith('raised'):
            chk.count('restart_raised_' + h['outcome'][7:])
            if state not in ('uncooperative', 'slow-exit', 'slow-results'):
                probs.append('restart-%s' % h['outcome'])
            # raising is the allowed way out for a worker that cannot be stopped
        else:
            if h['old_pid_running']:
                probs.append('returned-while-old-child-still-running')
            if not h['alive']:
                probs.append('not-alive-after-restart')
            if h['name'] != spec.get('name', 'wname') or h['userid'] != spec.get('userid', 77):
                probs.append('name-or-userid-changed')
            if not h['own_process'] and h['new_id'] == h['old_id']:
                probs.append('same-identity-after-restart')
            f = h['first']
            if h.get('stray'):
                probs.append('new-stream-not-empty-before-any-input')
            elif f is None:
                probs.append('new-stream-%s' % h['raw_fail'])
            else:
                counter, flag, value, wid = f
                if not flag:
                    probs.append('new-stream-starts-with-end-marker')
                elif counter != 1:
                    probs.append('counter-does-not-start-from-one')
                elif wid != h['new_id']:
                    probs.append('first-message-from-other-identity')
                elif not (isinstance(value, list) and value[0] == h['probe']):
                    probs.append('stream-yields-result-of-previous-incarnation')
                elif value[1:] != ['D2', 5, 'ok']:
                    probs.append('target-or-defaults-changed')
        if probs:
            chk.violation('%s:%s:%s:%s' % (probs[0], kind_of(cls), state, 'supplied-pipe' if spec['supplied_pipe'] else 'own-pipe'),
                          '%s state=%s hop %d: %s; %s' % (cls, state, h.get('hop', -1), ', '.join(probs), short(h, 300)), {'spec': spec, 'hop': h, 'hops': hops, 'stderr': res['stderr'][-300:]})
            return
    if len(chk.samples) < 4:
        chk.sample({'cls': cls, 'state': state, 'supplied_pipe': spec['supplied_pipe'], 'hops': [(h['outcome'], h.get('first')) for h in hops]})


def run(tier):
    thorough = tier == 'thorough'
    chk = Check('C17', 'exploration', tier,
                'states at restart {never used, results unread, inputs queued, closed, died by exception, died by an exception that cannot be rebuilt in the parent, killed by signal, uncooperative target, busy, busy in blocking calls (restart timeouts 0-0.3 s), SIGSTOPped, holding the interpreter lock in a C call, slow exit, results still arriving (slow to rebuild)} x 1-3 consecutive restarts x thread/process/remote x {own pipe, caller-supplied Pipe}; '
                'distinct non-trivial = distinct (class, state, restarts, pipe, between-hop states)')
    r = rng('c17')
    jobs = []
    for cls in CLASSES:
        for state in STATES:
            for supplied in (False, True):
                reps = [1, 2, 3] if thorough else [r.choice([1, 2, 3])]
                if state == 'busy-blocking':
                    for to in (0, 0.1, 0.3):
                        jobs.append(dict(cls=cls, state=state, supplied_pipe=supplied, restarts=1, timeout=to, stray_window=0.05, between=['idle'] * 3))
                    continue
                if state == 'slow-results':
                    # the restart timeout relative to what the old incarnation still needs matters here
                    for to in (0.3, 1, 1.5, 2.5):
                        jobs.append(dict(cls=cls, state=state, supplied_pipe=supplied, restarts=1, timeout=to, stray_window=1.6, between=['idle'] * 3))
                    continue
                for n in reps:
                    # falsy but meaningful identification (the first worker of a pool has userid 0)
                    ident = r.choice([{}, {}, {'userid': 0}, {'userid': 0, 'name': ''}, {'name': ''}])
                    jobs.append(dict(ident, cls=cls, state=state, supplied_pipe=supplied, restarts=n, timeout=0.5,
                                     stray_window=0.05, between=[r.choice(['unread', 'queued', 'dead', 'idle']) for _ in range(3)]))
    for cls in CLASSES:
        for state in ('never-used', 'died-by-exception', 'results-unread'):
            jobs.append(dict(cls=cls, state=state, supplied_pipe=False, restarts=2, timeout=0.5, stray_window=0.05, between=['idle'] * 3, userid=0, name=''))
    wd = workdir('c17')

    def one(ij):
        i, sp = ij
        res = run_case('checks.c17:case', sp, os.path.join(wd, 'r%d' % i), timeout=240)
        cleanup(res['dir'])
        return sp, res

    for sp, res in pmap(one, list(enumerate(jobs)), 10):
        chk.case((sp['cls'], sp['state'], sp['restarts'], sp['supplied_pipe'], sp['timeout'], sp.get('userid', 77), sp.get('name', 'wname'), tuple(sp['between'][:sp['restarts'] - 1])))
        chk.count('cases')
        judge(chk, sp, res)
    cleanup(wd)
    chk.assumptions = ['an uncooperative (exception-swallowing) target may make restart() raise; it must not return while the old child still runs',
                       'identity/equivalence are observed through id, name, userid and a probe input evaluated with the defaults']
    return chk.finish(min_distinct=20)


def replay(spec):
    import json
    print(json.dumps(spec, indent=1)[:5000])
    return 0
