"""C11 - the remote server survives every client failure.

Monitor: the byte streams of well-behaved clients (one-shot worker, persistent
worker, context create, context delete, worker in a context) are recorded from
the real client code, then replayed by a raw socket against a real server, cut
at every offset and closed with FIN or RST; control-channel steps (connect and
close, close after the runtime info, vanish while the worker runs) are played
too; several faulty clients in a row.  After each faulty client the oracle
checks the server process, a fresh well-behaved RemoteWorker round trip
(bounded) and a concurrently running healthy persistent worker of another
client."""
import os

from vlib.common import Check, rng, run_case, pmap, workdir, cleanup, short

PROBE_S = 12.0


def case(spec, log):
    import logging
    import signal
    import socket
    import threading
    import time
    logging.disable(logging.CRITICAL)
    from vlib import vtargets, peers
    from vlib.case import thread_stack
    from vlib.common import pid_running, descendants
    from pyworkers.remote import RemoteWorker, recv_msg, send_msg
    from pyworkers.persistent_remote import PersistentRemoteWorker
    from pyworkers.remote_context import RemoteContext
    from pyworkers.remote_server import spawn_server

    state = {'server': None, 'healthy': None, 'n_servers': 0, 'hcount': 0}

    def new_server():
        if state['server'] is not None:
            try:
                for p in descendants(state['server'].pid) + [state['server'].pid]:
                    os.kill(p, signal.SIGKILL)
            except OSError:
                pass
        # close_on_none: a server that stops on an explicit None header (the command-line default) - a client that merely
        # vanishes must not be mistaken for that
        state['server'] = spawn_server(('127.0.0.1', 0), close_on_none=bool(spec.get('close_on_none')))
        state['n_servers'] += 1
        state['healthy'] = PersistentRemoteWorker(vtargets.pecho, host=state['server'].addr)
        state['hcount'] = 0
        # a context registered by another (healthy) client: must stay usable whatever faulty clients do
        state['hctx'] = RemoteContext(901, host=state['server'].addr, target=vtargets.ctx_target, args=[None, 'hctx'], kwargs={'mul': 3})
        state['streams'] = record_streams(state['server'].addr)
        # context 7 exists for the worker-in-context stream
        return state['server']

    def record_streams(addr):
        """Byte streams of well-behaved clients, recorded from the real client code against this server."""
        out = {}
        with peers.Recorder() as rec:
            w = RemoteWorker(vtargets.ret_value, args=[1], host=addr)
            w.wait(10)
        out['worker'] = bytes(rec.streams.get(tuple(addr), b''))
        with peers.Recorder() as rec:
            w = PersistentRemoteWorker(vtargets.pecho, host=addr)
            w.enqueue(1)
            w.enqueue(2)
            w.wait(10)
        out['persistent'] = bytes(rec.streams.get(tuple(addr), b''))
        with peers.Recorder() as rec:
            ctx = RemoteContext(900, host=addr, target=vtargets.pecho)
        out['ctx-create'] = bytes(rec.streams.get(tuple(addr), b''))
        with peers.Recorder() as rec:
            # a worker request naming the healthy client's context: faulty replays of it hit a live context
            w = PersistentRemoteWorker(None, host=addr, context=901)
            w.enqueue(1)
            w.wait(10)
        out['ctx-worker'] = bytes(rec.streams.get(tuple(addr), b''))
        with peers.Recorder() as rec:
            ctx.wait()
        out['ctx-delete'] = bytes(rec.streams.get(tuple(addr), b''))
        return out

    def probe():
        """Health of the server after a faulty client."""
        srv = state['server']
        res = {'server_alive': pid_running(srv.pid)}
        if not res['server_alive']:
            return res
        box = {}

        def rt():
            try:
                w = RemoteWorker(vtargets.ret_value, args=[3], host=srv.addr)
                ok = w.wait(PROBE_S)
                box['r'] = (ok, w.has_error, w.result)
            except BaseException as e:  # noqa
                box['e'] = repr(e)[:120]

        t = threading.Thread(target=rt, daemon=True)
        t.start()
        t.join(PROBE_S)
        if t.is_alive():
            res['probe'] = 'hang'
            res['probe_stack'] = thread_stack(t.ident)[:6]
        elif 'e' in box:
            res['probe'] = 'raised:' + box['e']
        else:
            res['probe'] = 'ok' if box['r'] == (True, False, 3) else 'wrong:%r' % (box['r'],)
        # the other client's healthy worker must keep answering
        h = state['healthy']
        hb = {}

        def hq():
            try:
                state['hcount'] += 1
                hb['v'] = h.call(state['hcount'])
            except BaseException as e:  # noqa
                hb['e'] = repr(e)[:100]

        if res.get('probe') == 'ok':
            t = threading.Thread(target=hq, daemon=True)
            t.start()
            t.join(PROBE_S)
            res['healthy'] = 'hang' if t.is_alive() else ('raised:' + hb['e'] if 'e' in hb else ('ok' if hb.get('v') == (state['hcount'], (), []) else 'wrong:%r' % (hb.get('v'),)))
            cb = {}

            def cq():
                try:
                    cw = PersistentRemoteWorker(None, host=srv.addr, context=901)
                    cb['v'] = cw.call(7)
                    cw.wait(5)
                except BaseException as e:  # noqa
                    cb['e'] = repr(e)[:100]

            t = threading.Thread(target=cq, daemon=True)
            t.start()
            t.join(PROBE_S)
            res['healthy_context'] = 'hang' if t.is_alive() else ('raised:' + cb['e'] if 'e' in cb else ('ok' if cb.get('v') == ['hctx', 21] else 'wrong:%r' % (cb.get('v'),)))
        return res

    new_server()
    try:
        for f in spec['faults']:
            srv = state['server']
            streams = state['streams']
            kind = f['kind']
            desc = dict(f)
            try:
                if kind == 'cut':
                    s = streams[f['stream']]
                    off = min(f['off'], len(s)) if f['off'] >= 0 else len(s)
                    bounds = peers.message_bounds(s)
                    desc['stream_len'] = len(s)
                    desc['bounds'] = bounds
                    desc['off'] = off
                    peers.raw_client(srv.addr, s[:off], ending=f['ending'], hold=f.get('hold', 0.0), split_last=f.get('split_last', 0.0))
                elif kind == 'corrupt':
                    # the client's process goes wrong rather than away: message m of its stream is well framed but unusable
                    import pickle
                    import struct
                    st = streams[f['stream']]
                    bounds = peers.message_bounds(st)
                    m = min(f['msg'], max(0, len(bounds) - 2))
                    n = bounds[m + 1] - bounds[m] - 4 if len(bounds) > m + 1 else 16
                    body = {'garbage': bytes((7 * i + 3) % 251 for i in range(max(n, 8))), 'wrong-object': pickle.dumps(('not', 'what', 'you', 'expect')),
                            'none': pickle.dumps(None)}[f['mode']]
                    data = st[:bounds[m]] + struct.pack('!I', len(body)) + body
                    desc['msg'] = m
                    desc['stream_len'] = len(st)
                    desc['off'] = len(data)
                    peers.raw_client(srv.addr, data, ending=f['ending'], hold=0.2)
                elif kind == 'ctrl':
                    # complete data stream of the hand-shake part (header + worker), then play with the control channel
                    s = streams['worker']
                    b = peers.message_bounds(s)
                    first = s[:b[2]] if len(b) > 2 else s

                    def after(sock):
                        raw = peers.read_msg_raw(sock)
                        if raw is None:
                            return 'no-ctrl-addr'
                        from checks.c10 import FakeSock
                        addr = recv_msg(FakeSock(raw))
                        step = f['step']
                        if step == 'never-connect-then-close':
                            time.sleep(0.2)
                            return 'closed-data-without-ctrl'
                        c = socket.socket(socket.AF_INET, socket.SOCK_STREAM)
                        c.settimeout(5)
                        c.connect(tuple(addr))
                        if step == 'connect-and-close':
                            peers.FakeServer._close(c, f['ending'])
                            return step
                        info = peers.read_msg_raw(c)
                        if step == 'close-after-info':
                            peers.FakeServer._close(c, f['ending'])
                            return step
                        if step == 'vanish-while-running':
                            time.sleep(0.1)
                            peers.FakeServer._close(c, f['ending'])
                            return step
                        return 'unknown'
                    desc['played'] = peers.raw_client(srv.addr, first, ending=f['ending'], after=after)
            except BaseException as e:  # noqa
                desc['client_error'] = repr(e)[:120]
            time.sleep(0.05)
            if f.get('probe', True):
                res = probe()
                log.ev('fault', fault=desc, health=res)
                if not res['server_alive'] or res.get('probe') != 'ok' or res.get('healthy') not in (None, 'ok') or res.get('healthy_context') not in (None, 'ok'):
                    new_server()
            else:
                log.ev('fault', fault=desc, health=None)
        return {'servers_used': state['n_servers']}
    finally:
        try:
            for p in descendants(state['server'].pid) + [state['server'].pid]:
                os.kill(p, signal.SIGKILL)
        except OSError:
            pass


def step_of(f):
    """Protocol step a cut offset falls into (mechanism label)."""
    if f['kind'] == 'ctrl':
        return 'ctrl:' + f['step']
    if f['kind'] == 'corrupt':
        return 'unusable-message-%d:%s' % (f.get('msg', 0) + 1, f['mode'])
    off, b = f['off'], f.get('bounds', [0])
    if off == 0:
        return 'after-connect'
    if off >= f.get('stream_len', 0):
        return 'complete-stream-then-close'
    for i in range(len(b) - 1):
        if b[i] <= off < b[i + 1]:
            part = 'length-prefix' if off - b[i] < 4 else 'body'
            if off == b[i]:
                return 'between-message-%d-and-%d' % (i, i + 1)
            return 'message-%d-%s' % (i + 1, part)
    return 'between-messages' if off in b else 'tail'


def run(tier):
    thorough = tier == 'thorough'
    chk = Check('C11', 'fault_enumeration', tier,
                'recorded client byte streams {worker, persistent worker, context create, context delete, worker in context} replayed against a real server cut at every offset (thorough) / every length-prefix byte, +-4 around message boundaries and seeded offsets (quick), closed with FIN or RST; '
                'control-channel steps {close data without connecting, connect and close, close after runtime info, vanish while running}; well-framed but unusable messages (garbage, wrong object, None) in place of each of the first four messages of every stream; sequences of 3-5 faulty clients before one probe; '
                'every other shard runs against a server started with close_on_none=True; after each fault: server pid, well-behaved round trip, healthy persistent worker of another client; distinct non-trivial = distinct (stream, offset, ending) / (step, ending) / sequences')
    r = rng('c11')
    faults = []
    # stream lengths are only known inside the case; offsets are clipped there. Upper bounds per stream (measured): ~1100 bytes
    est = {'worker': 1000, 'persistent': 1200, 'ctx-create': 700, 'ctx-delete': 60, 'ctx-worker': 900}
    for stream, n in est.items():
        if thorough:
            offs = list(range(0, n, 1 if n < 100 else 3)) + [-1]
        else:
            offs = sorted(set(list(range(0, 28)) + [r.randrange(28, n) for _ in range(10)])) + [-1]
        for off in offs:
            faults.append(dict(kind='cut', stream=stream, off=off, ending=r.choice(['fin', 'rst']) if not thorough else ('fin' if off % 2 else 'rst')))
    for stream in est:
        for ending in ('fin', 'rst'):
            for split_last in (0.0, 0.3):
                for hold in (0.0, 0.3):
                    faults.append(dict(kind='cut', stream=stream, off=-1, ending=ending, split_last=split_last, hold=hold))
    for stream in est:
        for m in range(4):
            for mode in ('garbage', 'wrong-object', 'none'):
                faults.append(dict(kind='corrupt', stream=stream, msg=m, mode=mode, ending=r.choice(['fin', 'rst'])))
    for step in ('never-connect-then-close', 'connect-and-close', 'close-after-info', 'vanish-while-running'):
        for ending in ('fin', 'rst'):
            faults.append(dict(kind='ctrl', step=step, ending=ending))
    r.shuffle(faults)
    n_shards = 16
    shards = [faults[i::n_shards] for i in range(n_shards)]
    # sequences of several faulty clients before one probe
    seqs = []
    for _ in range(24 if thorough else 6):
        k = r.randint(3, 5)
        seq = [dict(r.choice(faults), probe=False) for _ in range(k)]
        seq[-1]['probe'] = True
        seq[-1]['sequence'] = [short({x: v for x, v in s.items() if x != 'probe'}, 80) for s in seq]
        seqs.append(seq)
    shards.append([f for s in seqs for f in s])
    wd = workdir('c11')

    def one(ij):
        i, fl = ij
        if i % 2 == 1:
            # on such a server a None header is the documented request to stop: not a client failure
            for f in fl:
                if f.get('kind') == 'corrupt' and f.get('mode') == 'none' and f.get('msg') == 0:
                    f['mode'] = 'wrong-object'
        res = run_case('checks.c11:case', {'faults': fl, 'close_on_none': (i % 2 == 1)}, os.path.join(wd, 's%d' % i), timeout=120 + len(fl) * (2 * PROBE_S + 3))
        for e in res['events']:
            if e.get('ev') == 'fault':
                e['fault']['close_on_none'] = (i % 2 == 1)
        cleanup(res['dir'])
        return fl, res

    servers = 0
    for fl, res in pmap(one, list(enumerate(shards)), 16):
        evs = [e for e in res['events'] if e.get('ev') == 'fault']
        if res['result']:
            servers += res['result'].get('servers_used', 0)
        if len(evs) < len(fl):
            chk.inconclusive('shard incomplete (%d of %d faults)' % (len(evs), len(fl)), {'stderr': res['stderr'][-500:], 'timed_out': res['timed_out']})
        for e in evs:
            f, h = e['fault'], e['health']
            if h is None:
                chk.count('faults_without_probe')
                continue
            step = step_of(f)
            chk.case((f['kind'], f.get('stream'), f.get('off') if f['kind'] != 'corrupt' else (f.get('msg'), f.get('mode')), f.get('step'), f['ending'], bool(f.get('sequence')), bool(f.get('close_on_none'))))
            chk.count('faults_against_close_on_none_server' if f.get('close_on_none') else 'faults_against_default_server')
            chk.count('faults_probed')
            chk.count('step_' + (f.get('stream', 'ctrl') + ':' + step.split(':')[-1])[:50])
            prob = None
            if not h['server_alive']:
                prob = 'server-died'
            elif h.get('probe') != 'ok':
                prob = 'server-does-not-serve-new-client(%s)' % str(h.get('probe')).split(':')[0]
            elif h.get('healthy') not in (None, 'ok'):
                prob = 'healthy-worker-of-other-client-disturbed(%s)' % str(h.get('healthy')).split(':')[0]
            elif h.get('healthy_context') not in (None, 'ok'):
                prob = 'context-of-other-client-lost(%s)' % str(h.get('healthy_context')).split(':')[0]
            if prob:
                where = ('sequence' if f.get('sequence') else '%s:%s' % (f.get('stream', 'handshake'), step)) + (':close_on_none-server' if f.get('close_on_none') else '')
                chk.violation('%s:%s' % (prob, where), 'after a client that %s: %s; health %s' % (
                    ('sent %d of %d bytes of the %s stream (%s) and closed with %s' % (f.get('off', 0), f.get('stream_len', 0), f.get('stream'), step, f['ending'])) if f['kind'] == 'cut' else ('sent an unusable message (%s) in place of message %d of the %s stream' % (f['mode'], f.get('msg', 0) + 1, f.get('stream'))) if f['kind'] == 'corrupt' else ('played control-channel step %s (%s)' % (f['step'], f['ending'])),
                    prob, short(h, 300)), {'fault': f, 'health': h})
            elif len(chk.samples) < 4:
                chk.sample({'fault': {k: v for k, v in f.items() if k != 'bounds'}, 'step': step, 'health': h})
    chk.count('servers_used', servers)
    cleanup(wd)
    chk.assumptions = ['a client that stays connected but silent for ever is not a "disconnect or crash" and is not played',
                       'probe bound %.0f s per round trip on loopback; a hung probe is reported with the stack of the blocked client call' % PROBE_S]
    return chk.finish(min_distinct=40)


def replay(spec):
    import json
    print(json.dumps(spec, indent=1)[:5000])
    return 0
