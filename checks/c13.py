"""C13 - remote_pickle is invisible to code that does not opt in.

Differential monitor: every generated graph is round-tripped through the real
remote_pickle and through standard pickle; canonical forms, exception types
and the per-class hook-call logs must agree."""
import copy
import io
import pickle
from multiprocessing.reduction import ForkingPickler

from vlib.common import Check, rng, short
from vlib import pk
from vlib.pk import LOG, canon

import pyworkers.remote_pickle as rp

ATTRS = ('a', 'b', 'c')
SLOTS = ('_lbl', 'a', 'b', 'c')


def norm_log(log):
    # an explicit remote=False is the documented default: {} and {'remote': False} are the same call
    return [(l, c, h, repr({} if (h == 'getstate-kw' and a == {'remote': False}) else a)) for (l, c, h, a) in log]


LAST_EXC = [None]


def roundtrip(dumps, loads, g, **kw):
    LOG.clear()
    try:
        data = dumps(g, **kw)
        out = loads(data)
        return ('ok', canon(out), norm_log(LOG))
    except RecursionError:
        return ('recursion', None, None)
    except BaseException as e:  # noqa
        # a graph that standard pickle cannot round-trip has no defined reference value: only
        # "both fail" is compared (exception types differ legitimately between pickle's C and Python paths)
        LAST_EXC[0] = type(e).__name__
        return ('exc', None, None)
    finally:
        LOG.clear()


def std_menu():
    import datetime
    import decimal
    import fractions
    import enum
    import collections
    import re
    import uuid
    import pathlib
    import array
    import ipaddress
    import functools
    import operator
    import os.path
    from vlib import pkmenu
    return [
        None, True, 0, 2 ** 70, -1.5, float('inf'), 1 + 2j, 'text', b'bytes', bytearray(b'ba'), (), [], {}, set(), frozenset([1, 2]),
        (1, 'a', None), [1, [2, [3, [4]]]], {'k': {'k': {'k': 1}}}, {1, 2, 3}, range(3, 10, 2), slice(1, 5, 2), Ellipsis, NotImplemented,
        datetime.datetime(2020, 1, 2, 3, 4, 5, 6), datetime.date(2020, 1, 2), datetime.time(1, 2), datetime.timedelta(3, 4),
        datetime.timezone(datetime.timedelta(hours=2)), datetime.datetime(2020, 1, 1, tzinfo=datetime.timezone.utc),
        decimal.Decimal('1.50'), fractions.Fraction(3, 7), pkmenu.Color.RED, pkmenu.Num.TWO, pkmenu.Flag.A | pkmenu.Flag.B,
        pkmenu.Point(1, [2]), pkmenu.NT(1, 'b'), pkmenu.Frozen(3),
        ValueError('a', 1), KeyError('k'), OSError(2, 'msg'), pkmenu.MyError('x', 2), StopIteration(3), UnicodeDecodeError('utf8', b'x', 0, 1, 'r'),
        len, os.path.join, operator.add, pkmenu.func, dict, collections.OrderedDict, pkmenu.Point, int, type(None),
        collections.OrderedDict([(1, 2), (3, 4)]), collections.defaultdict(int, {1: 2}), collections.deque([1, 2], maxlen=5),
        collections.Counter('aab'), collections.ChainMap({1: 2}, {3: 4}),
        re.compile('a+b', re.I), re.compile(b'x'), int | str, list[int],
        uuid.UUID(int=5), pathlib.PurePosixPath('/a/b'), array.array('i', [1, 2]), ipaddress.ip_address('127.0.0.1'),
        functools.partial(operator.add, 1), operator.itemgetter(1), operator.attrgetter('a.b'), memoryview.__name__,
        [re.compile('x'), {'p': re.compile('y')}],
    ]


def gen_specs(r, declaring):
    """A hierarchy of 1-3 class specs (root first)."""
    depth = r.randint(1, 3)
    specs = []
    root_slots = r.random() < 0.25
    root_list = (not root_slots) and r.random() < 0.15
    for i in range(depth):
        gs_choices = [None, None, 'plain', 'kwargs'] + (['remote', 'remote'] if declaring else [])
        s = {
            'getstate': r.choice(gs_choices),
            'setstate': r.random() < 0.4,
            'reduce': r.random() < 0.12,
            'newargs': i == 0 and r.random() < 0.15,
            'marker': i == 0 and r.random() < 0.4,
            'statekind': 'tuple' if r.random() < 0.15 else 'dict',
            'slots': (SLOTS if i == 0 else ()) if root_slots else None,
            'listbase': i == 0 and root_list,
        }
        if s['statekind'] == 'tuple':
            s['setstate'] = True if r.random() < 0.8 else s['setstate']
            if not s['getstate']:
                s['statekind'] = 'dict'
        specs.append(s)
    if declaring and not any(s['getstate'] == 'remote' for s in specs):
        specs[r.randrange(depth)]['getstate'] = 'remote'
    return specs


def build_hierarchy(specs, registry):
    """Returns (classes, warning) - creation may raise Warning for marker-based inconsistent chains."""
    classes = []
    prev = None
    for s in specs:
        s = dict(s, base=prev)
        try:
            cls = pk.make_class(s, registry)
        except Warning as w:
            return classes, w
        classes.append(cls)
        prev = cls.__name__
    return classes, None


def gen_graph(r, classes, labels, depth=4):
    pool = []
    anc = []

    def prim():
        return r.choice([None, True, False, 0, -7, 2 ** 40, 1.25, 'str', '', b'by', 'long' * 20])

    def node(d):
        x = r.random()
        if d <= 0 or x < 0.25:
            return prim()
        if pool and x < 0.35:
            return r.choice(pool)
        if anc and x < 0.42:
            return r.choice(anc)   # cycle
        if x < 0.55:
            lst = []
            pool.append(lst)
            anc.append(lst)
            for _ in range(r.randint(0, 3)):
                lst.append(node(d - 1))
            anc.pop()
            return lst
        if x < 0.63:
            return tuple(node(d - 1) for _ in range(r.randint(0, 3)))
        if x < 0.73:
            dct = {}
            pool.append(dct)
            anc.append(dct)
            for i in range(r.randint(0, 3)):
                dct[r.choice(['k%d' % i, i, (i, 'k')])] = node(d - 1)
            anc.pop()
            return dct
        if x < 0.78:
            return r.choice([set, frozenset])(r.choice([1, 'a', None, 2.5, (1, 2)]) for _ in range(r.randint(0, 3)))
        cls = r.choice(classes)
        o = pk.new_instance(cls, labels)
        pool.append(o)
        anc.append(o)
        for a in r.sample(ATTRS, r.randint(0, 3)):
            try:
                setattr(o, a, node(d - 1))
            except AttributeError:
                pass
        if isinstance(o, list):
            for _ in range(r.randint(0, 2)):
                o.append(node(d - 1))
        anc.pop()
        return o

    top = node(depth)
    if r.random() < 0.5:
        cls = r.choice(classes)
        o = pk.new_instance(cls, labels)
        try:
            o.a = top
            o.b = node(depth - 1)
        except AttributeError:
            pass
        top = o
    return top


class _Slow:
    """Plain class (no remote awareness) whose __setstate__ gives other threads a chance to run in the middle of a load."""
    def __init__(self, v):
        self.v = v

    def __setstate__(self, state):
        import time
        time.sleep(0.002)
        self.__dict__.update(state)

    def __eq__(self, other):
        return type(other) is _Slow and other.v == self.v


class _Box:
    """Plain class that keeps part of its state as a pickle of its own and unpacks it in __setstate__ (a nested loads)."""
    def __init__(self, inner, use_remote):
        self.use_remote = use_remote
        self.blob = (rp.dumps if use_remote else pickle.dumps)(inner)
        self.inner = inner

    def __getstate__(self):
        return {'blob': self.blob, 'use_remote': self.use_remote}

    def __setstate__(self, st):
        self.__dict__.update(st)
        self.inner = (rp.loads if st['use_remote'] else pickle.loads)(st['blob'])


def _box_canon(b):
    return ('Box', _box_canon(b.inner)) if isinstance(b, _Box) else repr(b)


def short_lived_classes(chk, thorough):
    """Classes made at run time come and go (their addresses are reused): whatever the library remembers about a class that
    is gone must not be applied to a new one.  Plain classes are pickled and dropped, then inconsistently opted-in
    hierarchies are created - every one of them must still be rejected with a Warning."""
    import gc

    def make_inconsistent(i):
        base = type('Bs%d' % i, (), {'__getstate__': lambda self, remote=False: {'r': remote}})
        return type('Ls%d' % i, (base,), {'__getstate__': lambda self: {'plain': 1}})

    rounds = 12 if thorough else 4
    accepted = 0
    made = 0
    for rd in range(rounds):
        plain = [type('Ps%d_%d' % (rd, i), (), {}) for i in range(150)]
        for c in plain:
            o = c()
            o.x = 1
            try:
                rp.dumps(o)          # the class is looked at (and remembered) by the pickler even though it cannot be
            except Exception:       # pickled by reference afterwards (it lives in no module)
                pass
        del plain, c, o
        gc.collect()
        for i in range(60):
            leaf = make_inconsistent(rd * 100 + i)
            made += 1
            try:
                rp.dumps(leaf())
                accepted += 1
            except Warning:
                pass
            except BaseException:  # noqa
                accepted += 1
        del leaf
        gc.collect()
    LOG.clear()
    chk.case(('short-lived-classes', rounds))
    chk.count('short_lived_inconsistent_hierarchies', made)
    if accepted:
        chk.violation('inconsistent:accepted-after-class-turnover', '%d of %d inconsistently opted-in hierarchies created after other run-time classes had been pickled and dropped were not rejected with a Warning' % (accepted, made), {'accepted': accepted, 'made': made})


def nested_loads(chk):
    """loads() called again from inside an object that is being restored (plain classes): same result as pickle."""
    for depth in (1, 2, 3):
        for use_remote in (True, False):
            g = [1, {'a': 2}]
            for _ in range(depth):
                g = _Box(g, use_remote)
            graph = [g, 'after', _Box(('t',), use_remote)]
            ref = [_box_canon(x) for x in graph]       # what a faithful round trip gives (pickle does)
            chk.case(('nested-loads', depth, use_remote))
            chk.count('nested_loads_cases')
            try:
                got = [_box_canon(x) for x in rp.loads(rp.dumps(graph))]
                out = 'ok' if got == ref else 'value'
            except BaseException as e:  # noqa
                out = 'exc:' + type(e).__name__
            # ... and the thread is not left in a bad state
            try:
                after = rp.loads(rp.dumps([1, 2])) == [1, 2]
            except BaseException as e:  # noqa
                after = False
            LOG.clear()
            if out != 'ok' or not after:
                chk.violation('nondeclaring:nested-loads:%s' % (out if out != 'ok' else 'later-loads-broken'),
                              'plain objects whose __setstate__ calls %s.loads (depth %d): remote_pickle gives %s where pickle round-trips; a later loads on the thread works: %s' % (
                                  'remote_pickle' if use_remote else 'pickle', depth, out, after), {'depth': depth, 'nested_uses_remote_pickle': use_remote})


def concurrent_plain(chk, thorough):
    """Several threads load plain graphs at the same time (the loads overlap: __setstate__ sleeps): every single call
    must still equal what pickle gives."""
    import sys
    import threading
    graphs = [[_Slow(i), {'k': [_Slow(i + 100), (1, 2)]}, _Slow(None)] for i in range(6)]
    datas = [(rp.dumps(g), pickle.loads(pickle.dumps(g))) for g in graphs]
    old = sys.getswitchinterval()
    sys.setswitchinterval(1e-6)
    bad = []
    n_threads, n_loads = (8, 60) if thorough else (4, 25)

    def work(k):
        for j in range(n_loads):
            data, ref = datas[(k + j) % len(datas)]
            try:
                out = rp.loads(data)
                if out != ref:
                    bad.append('value')
            except BaseException as e:  # noqa
                bad.append('exc:' + type(e).__name__)

    try:
        ts = [threading.Thread(target=work, args=(k,)) for k in range(n_threads)]
        for t in ts:
            t.start()
        for t in ts:
            t.join()
    finally:
        sys.setswitchinterval(old)
    LOG.clear()
    chk.case(('concurrent-plain-loads', n_threads, n_loads))
    chk.count('concurrent_plain_loads', n_threads * n_loads)
    if bad:
        chk.violation('nondeclaring:concurrent-loads:%s' % bad[0], '%d of %d overlapping loads of plain graphs on %d threads differ from pickle (%s)' % (len(bad), n_threads * n_loads, n_threads, sorted(set(bad))), {'outcomes': sorted(set(bad))})


def repeated_dumps(rp, *graphs):
    """Outcome of dumps over several attempts on the same class (a caller that catches the Warning and tries again, a
    second worker created with the same argument): the first attempt that is not rejected names the outcome."""
    for n, g in enumerate(graphs):
        for proto in ((None,) if n == 0 else (None, 2)):
            try:
                rp.dumps(g) if proto is None else rp.dumps(g, protocol=proto)
                out = 'accepted'
            except Warning:
                out = 'warning'
            except BaseException as e:  # noqa
                out = 'exc:' + type(e).__name__
            if out != 'warning' or len(graphs) == 1:
                return out if n == 0 else '%s-on-attempt-%d' % (out, n + 1)
    return 'warning'


def run(tier):
    thorough = tier == 'thorough'
    chk = Check('C13', 'exploration', tier,
                'generated class hierarchies (depth<=3; __getstate__ plain/**kwargs/remote, __setstate__, __reduce__, __getnewargs__, __slots__, list subclass, marker base) '
                'and graphs (depth<=4, containers, shared refs, cycles) + a standard-library value menu, x pickle protocols 2-5 x remote True/False; '
                'oracle = canonical-form, exception-type and hook-log equality between remote_pickle and pickle; distinct non-trivial = distinct canonical forms containing a container or instance')
    r = rng('c13')

    def differ(kind, g_desc, a, b, extra, keyhint):
        if b[0] == 'exc' and a[0] == 'ok':
            b = ('exc:' + str(LAST_EXC[0]),) + tuple(b[1:])
            keyhint = keyhint.replace('->exc', '->exc:' + str(LAST_EXC[0]))
        what = '%s: pickle -> %s, remote_pickle -> %s' % (kind, a[0], b[0])
        chk.violation('%s:%s' % (kind, keyhint), what + ' for ' + short(g_desc, 200), dict(extra, pickle=short(a, 600), remote_pickle=short(b, 600)))

    # ---- A. standard-library menu -------------------------------------------
    for vi, v in enumerate(std_menu()):
        for proto in (2, 3, 4, 5):
            ref = roundtrip(pickle.dumps, pickle.loads, v, protocol=proto)
            for remote in (True, False):
                got = roundtrip(lambda g, **kw: rp.dumps(g, remote=remote, **kw), rp.loads, v, protocol=proto)
                chk.case(('menu', vi, proto, remote) if not isinstance(v, pk.PRIMS) else None)
                chk.count('menu_cases')
                if got != ref:
                    tname = type(v).__module__ + '.' + type(v).__qualname__
                    differ('stdlib', repr(v)[:80], ref, got, {'value': repr(v)[:200], 'protocol': proto, 'remote': remote},
                           '%s:%s->%s' % (tname if ref[0] != got[0] else 'value', ref[0], got[0]))
    chk.sample({'kind': 'stdlib menu', 'values': [repr(v)[:40] for v in std_menu()[22:40]]})
    late_copyreg(chk, differ)
    concurrent_plain(chk, thorough)
    nested_loads(chk)
    short_lived_classes(chk, thorough)

    # ---- B. generated non-declaring hierarchies + graphs -----------------------
    n_h = 250 if thorough else 60
    n_g = 40 if thorough else 15
    registry = {}
    for hi in range(n_h):
        specs = gen_specs(r, declaring=False)
        classes, w = build_hierarchy(specs, registry)
        if w is not None or not classes:
            chk.violation('nondeclaring:warning-at-creation', 'class hierarchy without any remote-aware __getstate__ rejected: %r' % (w,), {'specs': specs})
            continue
        assert not any(pk.declares_remote(c) for c in classes)
        for gi in range(n_g):
            labels = pk.Labels()
            g = gen_graph(r, classes, labels)
            proto = r.choice([2, 3, 4, 5])
            ref = roundtrip(pickle.dumps, pickle.loads, g, protocol=proto)
            if ref[0] == 'recursion':
                continue
            desc = short(canon(g), 300)
            for remote in (True, False):
                got = roundtrip(lambda x, **kw: rp.dumps(x, remote=remote, **kw), rp.loads, g, protocol=proto)
                nontriv = ref[0] != 'ok' or ref[1][0] not in PRIM_NAMES
                chk.case((hash(str(ref[1])), proto, remote) if nontriv else None)
                chk.count('graph_cases')
                chk.count('graph_outcome_' + ref[0])
                if got != ref:
                    if got[0] != ref[0]:
                        k = 'outcome:%s->%s' % (ref[0], got[0])
                    elif got[1] != ref[1]:
                        k = 'shape'
                    else:
                        k = 'hooklog'
                    differ('nondeclaring', desc, ref, got, {'specs': specs, 'protocol': proto, 'remote': remote}, k)
            if gi == 0 and hi < 4:
                chk.sample({'kind': 'generated', 'class_specs': specs, 'graph_canon': desc, 'pickle_outcome': ref[0], 'hook_log': short(ref[2], 300)})

    # ---- C. declaring classes: remote=False == pickle; std paths never pass remote=True ----
    n_h = 150 if thorough else 40
    warned = 0
    for hi in range(n_h):
        specs = gen_specs(r, declaring=True)
        classes, w = build_hierarchy(specs, registry)
        leafspec_model = None
        if classes:
            leaf = classes[-1]
        if w is not None:
            # creation rejected: must be an inconsistent chain by the independent model
            model = model_of_specs(specs[:len(classes) + 1])
            chk.case(('warn-create', str(specs)))
            chk.count('inconsistent_rejected_at_creation')
            if model != 'inconsistent':
                chk.violation('declaring:spurious-warning', 'consistent hierarchy rejected with Warning at class creation: %s' % w, {'specs': specs, 'model': model})
            warned += 1
            continue
        leaf = classes[-1]
        model = pk.mro_opt_in_model(leaf)
        labels = pk.Labels()
        g = gen_graph(r, classes, labels, depth=3)
        insts = pk.walk_instances(g)
        inconsistent_present = any(pk.mro_opt_in_model(type(o)) == 'inconsistent' for o in insts)
        # (1) remote=False equals pickle
        for proto in (2, 4, 5):
            ref = roundtrip(pickle.dumps, pickle.loads, g, protocol=proto)
            if ref[0] == 'recursion':
                continue
            got = roundtrip(lambda x, **kw: rp.dumps(x, remote=False, **kw), rp.loads, g, protocol=proto)
            chk.case(('decl-false', hash(str(ref[1])), proto))
            chk.count('declaring_remote_false_cases')
            if got != ref:
                k = 'outcome:%s->%s:%s' % (ref[0], got[0], pk.primary(pk.features(g))) if got[0] != ref[0] else ('shape' if got[1] != ref[1] else 'hooklog')
                differ('remote=False', short(canon(g), 300), ref, got, {'specs': specs, 'protocol': proto}, k)
        # (2) standard pickle / copy / deepcopy / ForkingPickler never pass remote=True
        for name, fn in (('pickle', lambda x: pickle.dumps(x)), ('copy', copy.copy), ('deepcopy', copy.deepcopy), ('ForkingPickler', ForkingPickler.dumps)):
            LOG.clear()
            try:
                fn(g)
            except BaseException:  # noqa
                pass
            flags = [a for (_, _, h, a) in LOG if h == 'getstate']
            kw = [a for (_, _, h, a) in LOG if h == 'getstate-kw']
            chk.case(('std', name, hash(str(specs))) if flags or kw else None)
            chk.count('std_path_getstate_calls', len(flags))
            if any(a is True for a in flags) or any(a.get('remote') for a in kw):
                chk.violation('stdpath:%s:remote-flag-passed' % name, '%s called __getstate__ with remote=True' % name, {'specs': specs, 'log': short(norm_log(LOG), 500)})
            LOG.clear()
        # (3) inconsistent chains are rejected with Warning by dumps (remote=True)
        if inconsistent_present:
            LOG.clear()
            outcome = repeated_dumps(rp, g, [g], [[g, 1]])
            chk.case(('inconsistent', str(specs)))
            chk.count('inconsistent_graphs')
            chk.count('inconsistent_' + outcome)
            if outcome != 'warning':
                chk.violation('inconsistent:' + outcome, 'graph with an inconsistently opted-in class was %s by remote_pickle.dumps' % outcome, {'specs': specs})
            LOG.clear()
        elif model == 'no' and all(pk.mro_opt_in_model(type(o)) == 'no' for o in insts):
            # remote-aware getstate hidden behind __reduce__: treated as non-opt-in => must equal pickle
            ref = roundtrip(pickle.dumps, pickle.loads, g)
            got = roundtrip(rp.dumps, rp.loads, g)
            chk.case(('decl-hidden', hash(str(ref[1]))))
            if ref[0] != 'recursion' and got != ref:
                differ('declaring-not-optin', short(canon(g), 300), ref, got, {'specs': specs}, 'differs')
    chk.count('hierarchies_rejected_at_creation', warned)

    # ---- D. exhaustive opt-in consistency table: chains of 1-3 classes ----------
    import itertools
    kinds = [None, 'plain', 'kwargs', 'remote']
    for depth in (1, 2, 3):
        for gs in itertools.product(kinds, repeat=depth):
            if 'remote' not in gs:
                continue
            for marker in (True, False):
                for red in [None] + list(range(depth)):
                    specs = [dict(getstate=gs[i], setstate=True, reduce=(red == i), newargs=False, marker=(marker and i == 0),
                                  statekind='dict', slots=None, listbase=False) for i in range(depth)]
                    model = model_of_specs(specs)
                    classes, w = build_hierarchy(specs, registry)
                    chk.case(('table', gs, marker, red))
                    chk.count('consistency_table_rows')
                    chk.count('consistency_model_' + model)
                    if w is not None:
                        # creation stops at the first class whose own chain is inconsistent
                        sub = model_of_specs(specs[:len(classes) + 1])
                        if sub != 'inconsistent':
                            chk.violation('table:spurious-warning-at-creation', 'chain %s (marker=%s, __reduce__ at %s) is %s by the model but class creation raised Warning' % (gs, marker, red, sub), {'specs': specs})
                        continue
                    labels = pk.Labels()
                    o = pk.new_instance(classes[-1], labels, a=1)
                    LOG.clear()
                    outcome = repeated_dumps(rp, o, [o, o], {'k': o}) if model == 'inconsistent' else repeated_dumps(rp, o)
                    LOG.clear()
                    if model == 'inconsistent' and outcome != 'warning':
                        chk.violation('table:inconsistent-' + outcome, 'chain %s (marker=%s, __reduce__ at %s) is inconsistent but dumps %s it' % (gs, marker, red, outcome), {'specs': specs})
                    if model != 'inconsistent' and outcome == 'warning':
                        chk.violation('table:spurious-warning', 'chain %s (marker=%s, __reduce__ at %s) is %s but dumps raised Warning' % (gs, marker, red, model), {'specs': specs})
                    if model == 'optin' and outcome == 'accepted':
                        # the remote flag must really have been passed
                        LOG.clear()
                        rp.dumps(o)
                        flags = [a for (_, _, h, a) in LOG if h == 'getstate']
                        LOG.clear()
                        if flags != [True]:
                            chk.violation('table:optin-not-remote', 'chain %s is opt-in but __getstate__ flags were %s' % (gs, flags), {'specs': specs})
                    if model == 'no' and outcome == 'accepted':
                        LOG.clear()
                        rp.dumps(o)
                        flags = [a for (_, _, h, a) in LOG if h == 'getstate']
                        LOG.clear()
                        if any(f is True for f in flags):
                            chk.violation('table:non-optin-got-remote', 'chain %s is not opt-in (hidden behind __reduce__) but __getstate__ got remote=True' % (gs,), {'specs': specs})
    chk.extra['generated_classes'] = len(registry)
    chk.assumptions = ['equivalence = equal canonical form (shape, types, values, sharing, cycles), equal exception type, equal per-class hook-call log',
                       'graphs whose standard pickling hits RecursionError are skipped']
    return chk.finish()


PRIM_NAMES = {'bool', 'int', 'float', 'complex', 'str', 'bytes', 'NoneType'}


def model_of_specs(specs):
    """Opt-in model computed from specs (root first) without creating the class."""
    saw_plain = False
    has_remote = False
    for s in reversed(specs):
        if s.get('reduce'):
            has_remote = False
            break
        g = s.get('getstate')
        if g == 'remote':
            if saw_plain:
                return 'inconsistent'
            has_remote = True
        elif g == 'plain':
            saw_plain = True
    return 'optin' if has_remote else 'no'


def replay(spec):
    import json
    print(json.dumps(spec, indent=1)[:4000])
    return 0


def late_copyreg(chk, differ):
    """Types made picklable through copyreg.pickle() *after* pyworkers.remote_pickle was imported (what a
    library imported later, or application set-up code, does)."""
    import copyreg
    import threading
    import vlib.genmod as genmod

    class LateLocked:
        """Not picklable by default (holds a lock); a reducer registered later makes it so."""
        def __init__(self, v):
            self.v = v
            self.lock = threading.Lock()
    LateLocked.__module__ = 'vlib.genmod'
    LateLocked.__qualname__ = 'LateLocked'
    genmod.LateLocked = LateLocked

    class LateCached:
        """Picklable by default, but its registered reducer drops a cache."""
        def __init__(self, v):
            self.v = v
            self.cache = ['stale']
    LateCached.__module__ = 'vlib.genmod'
    LateCached.__qualname__ = 'LateCached'
    genmod.LateCached = LateCached
    genmod._mk_locked = lambda v: LateLocked(v)
    genmod._mk_cached = lambda v: LateCached(v)

    def red_locked(o):
        LOG.append((None, 'LateLocked', 'copyreg-reducer', None))
        return (genmod._rebuild_late, ('LateLocked', o.v))

    def red_cached(o):
        LOG.append((None, 'LateCached', 'copyreg-reducer', None))
        return (genmod._rebuild_late, ('LateCached', o.v))

    genmod._rebuild_late = _rebuild_late
    copyreg.pickle(LateLocked, red_locked)
    copyreg.pickle(LateCached, red_cached)
    try:
        for vi, g in enumerate([LateLocked(1), LateCached(2), [LateLocked(3), {'k': LateCached(4)}], (LateCached(5), LateCached(5))]):
            for proto in (2, 3, 4, 5):
                ref = roundtrip(pickle.dumps, pickle.loads, g, protocol=proto)
                for remote in (True, False):
                    got = roundtrip(lambda x, **kw: rp.dumps(x, remote=remote, **kw), rp.loads, g, protocol=proto)
                    chk.case(('late-copyreg', vi, proto, remote))
                    chk.count('late_copyreg_cases')
                    if got != ref:
                        k = 'outcome:%s->%s' % (ref[0], got[0]) if got[0] != ref[0] else ('shape' if got[1] != ref[1] else 'reducer-not-used')
                        differ('late-copyreg', 'graph %d' % vi, ref, got, {'protocol': proto, 'remote': remote}, k)
    finally:
        copyreg.dispatch_table.pop(LateLocked, None)
        copyreg.dispatch_table.pop(LateCached, None)


def _rebuild_late(name, v):
    import vlib.genmod as genmod
    o = object.__new__(getattr(genmod, name))
    o.v = v
    return o
