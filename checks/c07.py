"""C07 - Pool.run yields exactly one result per input under every schedule and death.
C08 shares this engine (see c08.py).

(a) real Pool.run driven by the deterministic scheduler shim (vlib/poolsched):
    exhaustive DFS over small configurations, seeded walks over larger ones;
    online conservation invariant at every sync point + offline result oracle.
(b) randomized runs on real thread/process/remote pools with SIGKILL / poison."""
import json
import logging
import os
import sys
import time

from vlib.common import Check, rng, run_case, pmap, workdir, cleanup, short


# ---------------------------------------------------------------- shard (runs in a case subprocess)

def shard(spec, log):
    logging.disable(logging.CRITICAL)
    import random
    from vlib.poolsched import Scheduler, Chooser, judge
    cfg = spec['cfg']
    mode = spec['mode']
    limit = spec.get('limit', 100000)
    deadline = time.time() + spec.get('budget_s', 120)
    res = {'cfg': cfg, 'mode': mode, 'schedules': 0, 'exhausted': False, 'violations': [], 'outcomes': {}, 'states': set(), 'distinct': set(), 'max_sync': 0, 'sample': None}
    prefix = spec.get('prefix', [])
    rnd = random.Random(spec.get('seed', 0))
    seen_v = set()
    while res['schedules'] < limit and time.time() < deadline:
        ch = Chooser(prefix, rng=None if mode == 'dfs' else random.Random(rnd.random()))
        s = Scheduler(cfg, ch)
        out = s.run()
        res['schedules'] += 1
        choice = [t[0] for t in out['trace']]
        res['distinct'].add(tuple(choice))
        res['outcomes'][out['outcome']] = res['outcomes'].get(out['outcome'], 0) + 1
        res['states'].update(tuple(map(repr, out['states'])))
        res['max_sync'] = max(res['max_sync'], out['sync_points'])
        if res['sample'] is None and len(out['log']) > 6:
            res['sample'] = {'cfg': cfg, 'choices': choice, 'events': out['log'][:14], 'outcome': out['outcome']}
        for (prop, key, what) in judge(cfg, out):
            if (prop, key) not in seen_v or len(res['violations']) < 6:
                seen_v.add((prop, key))
                res['violations'].append({'prop': prop, 'key': key, 'what': what, 'cfg': cfg, 'choices': choice, 'log': out['log'][-30:], 'tb': out.get('tb')})
            res.setdefault('vcount', {})
            res['vcount'][prop + '|' + key] = res['vcount'].get(prop + '|' + key, 0) + 1
        if mode == 'dfs':
            tr = out['trace']
            i = len(tr) - 1
            while i >= 0 and tr[i][0] + 1 >= tr[i][1]:
                i -= 1
            if i < 0:
                res['exhausted'] = True
                break
            prefix = [t[0] for t in tr[:i]] + [tr[i][0] + 1]
    res['n_states'] = len(res['states'])
    res['n_distinct'] = len(res['distinct'])
    del res['states'], res['distinct']
    return res


def classify(v):
    """Mechanism-level key: symptom + whether the pool discovered a death while enqueueing."""
    key = v['key']
    if v['prop'] == 'C07' and (key.startswith('internal-error') or key in ('bookkeeping-invariant', 'result-multiset', 'hang')):
        death_at_enqueue = any(e[0] == 'pool-enqueue' and e[3] is False for e in v.get('log', []))
        if 'livelock' in v.get('what', '') or sum(1 for e in v.get('log', [])[-30:] if e[0] == 'refused') >= 25:
            key += ':refusing-enqueue-fn-livelock'
        else:
            key += ':death-found-while-enqueueing' if death_at_enqueue else ':other-schedule'
    return key


# ---------------------------------------------------------------- configurations

def dfs_configs(tier, retry=True, return_results=True):
    cfgs = []
    for n in range(0, 4):
        for extra in (0, 1):
            for deaths in (0, 1):
                cfgs.append(dict(workers=2, inputs=n, extra=extra, max_deaths=deaths, retry=retry, return_results=return_results))
    cfgs.append(dict(workers=1, inputs=3, extra=2, max_deaths=1, retry=retry, return_results=return_results))
    cfgs.append(dict(workers=2, inputs=3, extra=1, max_deaths=1, retry=retry, return_results=return_results, bare_eof=[0, 1]))
    cfgs.append(dict(workers=2, inputs=3, extra=0, max_deaths=0, retry=retry, return_results=return_results, poison=[1]))
    cfgs.append(dict(workers=2, inputs=3, extra=1, max_deaths=0, retry=retry, return_results=return_results, per_worker_callable=True))
    # two runs on the same pool: the first one may fail (poison input kills every worker), fresh workers are added, second run
    cfgs.append(dict(workers=1, inputs=2, extra=0, max_deaths=1, retry=retry, return_results=return_results, runs=2))
    cfgs.append(dict(workers=2, inputs=2, extra=1, max_deaths=0, retry=retry, return_results=return_results, poison=[1], runs=2))
    # three workers, two deaths: a dead worker's input is re-dispatched while another idle worker has died unnoticed
    cfgs.append(dict(workers=3, inputs=2, extra=0, max_deaths=2, retry=retry, return_results=return_results))
    cfgs.append(dict(workers=3, inputs=3, extra=0, max_deaths=2, retry=retry, return_results=return_results))
    # the same pool after restart_workers(): a run with a death, restart, a run with a death and a survivor
    cfgs.append(dict(workers=2, inputs=2, extra=0, max_deaths=1, retry=retry, return_results=return_results, runs=2, between='restart'))
    cfgs.append(dict(workers=2, inputs=3, extra=1, max_deaths=1, retry=retry, return_results=return_results, runs=2, between='restart'))
    # the hand-over of an input fails once or twice while the worker stays alive (transient failure of enqueue)
    cfgs.append(dict(workers=2, inputs=3, extra=0, max_deaths=0, retry=retry, return_results=return_results, raise_at=[[0, 1, 1]]))
    cfgs.append(dict(workers=2, inputs=3, extra=1, max_deaths=1, retry=retry, return_results=return_results, raise_at=[[1, 0, 2], [0, 2, 1]]))
    if tier == 'thorough':
        cfgs.append(dict(workers=2, inputs=4, extra=1, max_deaths=1, retry=retry, return_results=return_results))
        cfgs.append(dict(workers=3, inputs=3, extra=0, max_deaths=1, retry=retry, return_results=return_results))
        cfgs.append(dict(workers=2, inputs=3, extra=2, max_deaths=1, retry=retry, return_results=return_results))
        cfgs.append(dict(workers=2, inputs=3, extra=1, max_deaths=2, retry=retry, return_results=return_results))
    return cfgs


def walk_configs(tier, r, n, retry=True, return_results=True):
    cfgs = []
    for _ in range(n):
        w = r.randint(1, 3)
        inputs = r.randint(0, 6)
        cfg = dict(workers=w, inputs=inputs, extra=r.randint(0, 2), max_deaths=r.randint(0, 3), retry=retry, return_results=return_results)
        if r.random() < 0.3:
            cfg['bare_eof'] = [i for i in range(w) if r.random() < 0.5]
        if r.random() < 0.3 and inputs:
            cfg['poison'] = sorted(set(r.randrange(inputs) for _ in range(r.randint(1, 2))))
        if r.random() < 0.2 and inputs:
            cfg['refuse'] = [[r.randrange(w), r.randrange(inputs)] for _ in range(r.randint(1, 3))]
        if r.random() < 0.2:
            cfg['per_worker_callable'] = True
        if r.random() < 0.25:
            cfg['runs'] = 2
            if r.random() < 0.5:
                cfg['between'] = 'restart'
        if r.random() < 0.2 and inputs and not cfg.get('refuse'):
            cfg['raise_at'] = [[r.randrange(w), r.randrange(inputs), r.randint(1, 2)] for _ in range(r.randint(1, 2))]
        cfgs.append(cfg)
    return cfgs


def run_engine(chk, pid, tier, shards, parallel=16):
    wd = workdir(pid.lower())
    t0 = time.time()

    def one(ix):
        i, sp = ix
        r = run_case('checks.c07:shard', sp, os.path.join(wd, 's%d' % i), timeout=sp.get('budget_s', 120) + 240)
        if r['result'] is None and r['timed_out']:
            # the wall-clock watchdog fired (loaded machine): one more attempt before the shard counts as inconclusive
            r = run_case('checks.c07:shard', sp, os.path.join(wd, 's%d_again' % i), timeout=sp.get('budget_s', 120) + 480)
        return sp, r

    results = pmap(one, list(enumerate(shards)), parallel)
    total = 0
    exhaustive_cfgs = 0
    states = 0
    for sp, r in results:
        res = r['result']
        if res is None:
            chk.inconclusive('shard produced no result (timed_out=%s rc=%s)' % (r['timed_out'], r['rc']), {'cfg': sp['cfg'], 'stderr': r['stderr'][-500:], 'events': r['events'][-2:]})
            continue
        total += res['schedules']
        states = max(states, res['n_states'])
        chk.evaluations += res['schedules']
        for k, n in res['outcomes'].items():
            chk.count('outcome_' + k, n)
        chk.count('schedules_' + sp['mode'], res['schedules'])
        chk.count('distinct_choice_sequences', res['n_distinct'])
        chk.count('bookkeeping_states_seen_sum', res['n_states'])
        chk.extra['max_sync_points_in_a_run'] = max(chk.extra.get('max_sync_points_in_a_run', 0), res['max_sync'])
        if sp['mode'] == 'dfs':
            if res['exhausted']:
                exhaustive_cfgs += 1
                chk.extra.setdefault('exhausted_configurations', []).append(dict(sp['cfg'], schedules=res['schedules']))
            else:
                chk.extra.setdefault('truncated_dfs_configurations', []).append(dict(sp['cfg'], schedules=res['schedules']))
        for k in range(res['n_distinct']):
            pass
        chk.distinct.update('%s/%d/%d' % (json.dumps(sp['cfg'], sort_keys=True), sp.get('seed', 0), k) for k in range(res['n_distinct']))
        if res['sample'] and len(chk.samples) < 5:
            chk.sample(res['sample'])
        for v in res['violations']:
            if v['prop'] != pid:
                continue
            key = classify(v)
            n = res.get('vcount', {}).get(v['prop'] + '|' + v['key'], 1)
            chk.violation(key, '%s under cfg %s, choice sequence %s' % (short(v['what'], 300), v['cfg'], v['choices']),
                          {'cfg': v['cfg'], 'choices': v['choices'], 'log': v['log'], 'tb': v.get('tb'), 'cases_in_shard': n})
    chk.extra['exhaustive'] = exhaustive_cfgs > 0
    chk.extra['exhausted_configuration_count'] = exhaustive_cfgs
    chk.extra['wall_engine_s'] = round(time.time() - t0, 1)
    cleanup(wd)


def run(tier):
    thorough = tier == 'thorough'
    chk = Check('C07', 'exploration', tier,
                'real Pool.run under the scheduler shim: a case = one schedule (choice sequence over worker answers/deaths at each wait/enqueue sync point and ready-list order/subset); '
                'DFS with re-execution exhausts the small configurations, seeded walks sample pools of 1-3 workers, 0-6 inputs, extra 0-2, <=3 deaths, poison inputs, bare EOF, refusing enqueue_fn, transiently failing enqueue, per-worker callables, 1-2 runs per pool with new workers or restart_workers() in between; '
                'distinct non-trivial = distinct choice sequences')
    r = rng('c07')
    shards = [dict(cfg=c, mode='dfs', budget_s=(600 if thorough else 45)) for c in dfs_configs(tier)]
    nwalk = 160 if thorough else 40
    per = 1500 if thorough else 100
    for i, c in enumerate(walk_configs(tier, r, nwalk)):
        shards.append(dict(cfg=c, mode='walk', limit=per, seed=r.randrange(1 << 30), budget_s=(300 if thorough else 40)))
    run_engine(chk, 'C07', tier, shards)
    real_runs(chk, tier, r)
    chk.assumptions = ['workers are real PersistentThreadWorkers with a gated target; process/remote behaviour enters through the same pipe protocol (end marker or bare EOF) and through the real-worker runs',
                       'is_alive() is truthful at sync points (no pid-latency modelling)',
                       'step bound: 400 sync points per run']
    return chk.finish()


# ---------------------------------------------------------------- (b) real workers

def real_case(spec, log):
    """Randomized run on a real pool: SIGKILL at random times + poison inputs."""
    import random
    import signal
    import threading
    from pyworkers.pool import Pool, PoolError
    from pyworkers.worker import WorkerType
    from vlib import vtargets
    logging.disable(logging.CRITICAL)
    rnd = random.Random(spec['seed'])
    kinds = spec['kinds']
    server = None
    out = {}
    try:
        host = None
        if 'REMOTE' in kinds:
            from pyworkers.remote_server import spawn_server
            server = spawn_server(('127.0.0.1', 0))
            host = server.addr
        n = spec['inputs']
        poison = set(spec.get('poison', ()))
        p = Pool(vtargets.pool_target_big if spec.get('big') else vtargets.pool_target, retry=spec.get('retry', True), close_timeout=2)
        with p:
            for k in kinds:
                kw = {'host': host} if k == 'REMOTE' else {}
                p.add_worker(WorkerType[k], args=[None, sorted(poison)], **kw)
            victims = [w for w in p.workers if not w.is_thread]
            stop = threading.Event()

            def killer():
                for t in spec.get('kill_at', ()):
                    if stop.wait(t):
                        return
                    live = [w for w in victims if w.is_alive()]
                    if live:
                        w = rnd.choice(live)
                        try:
                            os.kill(w.pid, signal.SIGKILL)
                            log.ev('sigkill', pid=w.pid)
                        except OSError:
                            pass

            th = threading.Thread(target=killer, daemon=True)
            th.start()
            box = {}

            def do_run():
                try:
                    def slow_reader(worker, event, *a):
                        # a parent that is slow to read: the children spend most of their time blocked in the middle of a send
                        if event == 'finished':
                            time.sleep(0.03)
                    box['ret'] = [tuple(x[:2]) for x in p.run(iter(range(n)), worker_extra_pending_inputs=spec.get('extra', 0), worker_callback=(slow_reader if spec.get('big') else None))]
                    box['outcome'] = 'returned'
                except PoolError as e:
                    box['outcome'] = 'PoolError'
                    box['partial'] = [tuple(x[:2]) for x in e.partial_results] if e.partial_results is not None else None
                    box['alive'] = [w.is_alive() and w.id not in p._closed for w in p.workers]
                except BaseException as e:  # noqa
                    import traceback
                    box['outcome'] = 'internal:' + type(e).__name__
                    box['tb'] = traceback.format_exc()[-1500:]

            rt = threading.Thread(target=do_run, daemon=True)
            rt.start()
            rt.join(spec.get('deadline', 60))
            stop.set()
            if rt.is_alive():
                from vlib.case import thread_stack
                box['outcome'] = 'hang'
                box['stack'] = thread_stack(rt.ident)[:12]
                box['alive'] = [w.is_alive() for w in p.workers]
                p._map_guard = False
            out = box
    finally:
        if server is not None:
            server.terminate(timeout=1, force=True)
    return out


def real_runs(chk, tier, r):
    n = 120 if tier == 'thorough' else 16
    specs = []
    for i in range(n):
        kinds = r.choice([['THREAD', 'THREAD'], ['PROCESS', 'PROCESS'], ['PROCESS', 'THREAD'], ['REMOTE', 'REMOTE'], ['REMOTE', 'PROCESS', 'THREAD'], ['PROCESS', 'PROCESS', 'PROCESS']])
        inputs = r.randint(3, 40)
        specs.append(dict(seed=r.randrange(1 << 30), kinds=kinds, inputs=inputs, extra=r.randint(0, 2),
                          poison=sorted(set(r.randrange(inputs) for _ in range(r.choice([0, 0, 0, 1])))),
                          kill_at=sorted(r.uniform(0.0, 0.15) for _ in range(r.choice([0, 1, 1, 2]))), big=(i % 3 == 2)))
    for sp in specs:
        if sp.get('big'):
            # results that do not fit a pipe buffer: a kill can land while one is in flight
            sp['inputs'] = max(sp['inputs'], 25)
            sp['kill_at'] = sorted(r.uniform(0.05, 0.6) for _ in range(r.choice([1, 2, 3])))
            sp['kinds'] = r.choice([['PROCESS', 'PROCESS'], ['PROCESS', 'PROCESS', 'PROCESS'], ['REMOTE', 'PROCESS']])
    wd = workdir('c07real')

    def one(ix):
        i, sp = ix
        return sp, run_case('checks.c07:real_case', sp, os.path.join(wd, 'r%d' % i), timeout=120)

    for sp, res in pmap(one, list(enumerate(specs)), 8):
        out = res['result']
        chk.case(('real', sp['seed']))
        chk.count('real_pool_runs')
        if out is None:
            chk.inconclusive('real pool run gave no result', {'spec': sp, 'stderr': res['stderr'][-400:], 'timed_out': res['timed_out']})
            continue
        oc = out.get('outcome')
        chk.count('real_outcome_' + str(oc))
        nkill = sum(1 for e in res['events'] if e.get('ev') == 'sigkill')
        chk.count('real_sigkills_delivered', nkill)
        if oc == 'returned':
            got = sorted(x[1] for x in out['ret']) if out.get('ret') is not None else None
            want = list(range(sp['inputs']))
            if got != want:
                chk.violation('real:result-multiset', 'real pool %s returned %s for inputs 0..%d' % (sp['kinds'], short(got, 200), sp['inputs'] - 1), {'spec': sp, 'got': got})
        elif oc == 'PoolError':
            if not sp['poison'] and any(out.get('alive', [])):
                pass  # judged by C08
        elif oc == 'hang':
            chk.violation('real:hang', 'real pool %s: Pool.run still blocked after the deadline with workers alive=%s; stack %s' % (sp['kinds'], out.get('alive'), out.get('stack', [])[:3]), {'spec': sp, 'out': out})
        elif oc and oc.startswith('internal'):
            chk.violation('real:' + oc, 'real pool %s: Pool.run ended with %s' % (sp['kinds'], oc), {'spec': sp, 'tb': out.get('tb')})
    cleanup(wd)


def replay(spec):
    logging.disable(logging.CRITICAL)
    from vlib.poolsched import Scheduler, Chooser, judge
    w = spec['witness']
    if 'choices' not in w:
        print(json.dumps(spec, indent=1)[:3000])
        return 0
    out = Scheduler(w['cfg'], Chooser(w['choices'])).run()
    print('cfg', w['cfg'])
    print('choices', w['choices'])
    for e in out['log']:
        print('  ', e)
    print('outcome', out['outcome'], out.get('detail', ''), out.get('ret', ''))
    print(out.get('tb') or '')
    vs = judge(w['cfg'], out)
    for v in vs:
        print('VIOLATION property=%s replay=(this file) %s %s' % v)
    return 1 if vs else 0
