"""C14 - every opt-in object, wherever it sits, is serialised remotely exactly once.

Monitor: generated opt-in classes log every __getstate__/__setstate__ call; the
arrangement grammar is enumerated completely and each graph is round-tripped
through the real remote_pickle.  Oracle: one getstate(remote=True) per opt-in
instance at dump, load succeeds, canonical shape preserved (sharing, cycles),
one __setstate__ per instance with its own state (where the class defines it)."""
import collections

from vlib.common import Check, rng, short
from vlib import pk
from vlib.pk import LOG, canon

import pyworkers.remote_pickle as rp

VARIANTS = [dict(marker=m, setstate=s, statekind=k)
            for m in (True, False)
            for (s, k) in ((True, 'dict'), (True, 'tuple'), (False, 'dict'))]


def make_variant_classes(registry):
    out = []
    for v in VARIANTS:
        spec = dict(getstate='remote', setstate=v['setstate'], statekind=v['statekind'], marker=v['marker'],
                    reduce=False, newargs=False, slots=None, listbase=False, base=None)
        out.append(pk.make_class(spec, registry))
    plain = pk.make_class(dict(getstate=None, setstate=False, marker=False, base=None, slots=None, statekind='dict'), registry)
    plain_gs = pk.make_class(dict(getstate='plain', setstate=True, marker=False, base=None, slots=None, statekind='dict'), registry)
    # derives from the marker base but keeps a standard __getstate__(): pickled the standard way, not an opt-in child
    plain_marker = pk.make_class(dict(getstate='plain', setstate=True, marker=True, base=None, slots=None, statekind='dict'), registry)
    return out, [plain, plain_gs, plain_marker]


def shapes(O, P):
    """The arrangement grammar: name -> builder.  O(**attrs) makes an opt-in
    instance, P(**attrs) a plain one."""
    def cyc_self():
        o = O()
        o.me = o
        return o

    def cyc2():
        a = O()
        a.a = O(back=a)
        return a

    def cyc_list():
        a = O()
        a.items = [a, 1]
        return a

    def shared_attrs():
        s = O(v=1)
        return O(a=s, b=s)

    def shared_holders():
        s = O(v=1)
        return [O(c=s), O(c=s)]

    def shared_list():
        s = O(v=1)
        return [s, s, (s,)]

    def shared_deep():
        s = O(v=1)
        return O(a=O(a=s), l=[s])

    return collections.OrderedDict([
        ('zero-plain', lambda: P(x=1, y=[1, 2])),
        ('zero-containers', lambda: [1, {'a': (2, 3)}, None]),
        ('top', lambda: O()),
        ('top+prims', lambda: O(x=1, y='s', z=[1, 2], w={'k': None})),
        ('child1', lambda: O(a=O(v=1))),
        ('child1+prims', lambda: O(x=0, a=O(v=1), y=2)),
        ('sib2', lambda: O(a=O(v=1), b=O(v=2))),
        ('sib3', lambda: O(a=O(v=1), b=O(v=2), c=O(v=3))),
        ('sib2+prims', lambda: O(x=9, a=O(v=1), y=8, b=O(v=2), z=7)),
        ('chain3', lambda: O(a=O(a=O(v=3)))),
        ('chain3+sib', lambda: O(a=O(a=O(v=3)), b=O(v=4))),
        ('chain-sibs-below', lambda: O(a=O(a=O(v=1), b=O(v=2)))),
        ('list-top', lambda: [O(v=1), O(v=2)]),
        ('tuple-top', lambda: (O(v=1), O(v=2), O(v=3))),
        ('dict-top', lambda: {'k': O(v=1), 'j': O(v=2)}),
        ('list-of-chains', lambda: [O(a=O(v=1)), O(a=O(v=2))]),
        ('list-attr', lambda: O(items=[O(v=1), O(v=2)])),
        ('dict-attr', lambda: O(d={'k': O(v=1)})),
        ('tuple-attr', lambda: O(t=(O(v=1),))),
        ('attr-and-list', lambda: O(a=O(v=1), items=[O(v=2)])),
        ('plain-holder', lambda: P(x=O(v=1), y=O(v=2))),
        ('plain-between', lambda: O(p=P(x=O(v=1)))),
        ('plain-sibling', lambda: O(a=O(v=1), p=P(x=5))),
        ('plain-2siblings', lambda: O(p=P(x=1), q=P(x=2))),
        ('plain-sibling-in-chain', lambda: O(a=O(a=O(v=1), p=P(x=5)))),
        ('shared-2attrs', shared_attrs),
        ('shared-2holders', shared_holders),
        ('shared-in-list', shared_list),
        ('shared-deep', shared_deep),
        ('cycle-self', cyc_self),
        ('cycle-2', cyc2),
        ('cycle-via-list', cyc_list),
        ('mixed4', lambda: O(a=O(v=1), l=[O(v=2), P(x=O(v=3))])),
    ])


def judge(g, proto):
    """Round-trip g; returns (symptom or None, detail)."""
    insts = [o for o in pk.walk_instances(g) if pk.is_optin(o)]
    want = canon(g)
    LOG.clear()
    try:
        data = rp.dumps(g, protocol=proto)
    except BaseException as e:  # noqa
        LOG.clear()
        return 'dumps-raised:' + type(e).__name__, repr(e)[:200]
    dlog = list(LOG)
    LOG.clear()
    gets = collections.Counter()
    optlabels = set(pk.lbl(o) for o in insts)
    for (l, c, h, a) in dlog:
        if h == 'getstate' and l in optlabels:
            if a is not True:
                return 'getstate-without-remote-flag', short(dlog, 300)
            gets[l] += 1
    for o in insts:
        if gets[pk.lbl(o)] != 1:
            return 'getstate-count', 'instance #%s: %d getstate(remote=True) calls; log %s' % (pk.lbl(o), gets[pk.lbl(o)], short(dlog, 300))
    try:
        out = rp.loads(data)
    except BaseException as e:  # noqa
        LOG.clear()
        return 'loads-raised:' + type(e).__name__, repr(e)[:200]
    llog = list(LOG)
    LOG.clear()
    got = canon(out)
    if got != want:
        return 'shape', 'want %s got %s' % (short(want, 300), short(got, 300))
    sets = collections.Counter(l for (l, c, h, a) in llog if h == 'setstate')
    for o in pk.walk_instances(out):
        if not pk.is_optin(o):
            continue
        n = sets[pk.lbl(o)]
        has = '__setstate__' in type(o).__dict__ or any('__setstate__' in c.__dict__ for c in type(o).__mro__[:-1])
        if has and n != 1:
            return 'setstate-count', 'instance #%s: __setstate__ called %d times; log %s' % (pk.lbl(o), n, short(llog, 300))
        if o.__dict__.get('_r') is not True:
            return 'state-not-remote', 'instance #%s restored from a state taken with remote=%r' % (pk.lbl(o), o.__dict__.get('_r'))
        if '__setstate__' in o.__dict__:
            return 'stray-setstate-attribute', 'instance #%s' % pk.lbl(o)
    return None, None


def run(tier):
    thorough = tier == 'thorough'
    chk = Check('C14', 'exploration', tier,
                'arrangement grammar of 0-4 opt-in instances (top-level, 1-3 sibling attributes, containers, chains depth<=3, shared, cyclic, mixed with plain objects) '
                'x class variants (marker base / duck-typed, with/without __setstate__, dict/tuple state) x protocols 2-5, enumerated completely; plus seeded random graphs over '
                'generated opt-in hierarchies; plus the file API (several graphs dumped into one stream, loaded back one by one, trailer untouched); distinct non-trivial = distinct (shape, variant, protocol) containing >=1 opt-in instance')
    r = rng('c14')
    registry = {}
    variants, plains = make_variant_classes(registry)
    n_enum = 0
    for vi, cls in enumerate(variants):
        for pi, pcls in enumerate(plains):
            labels = pk.Labels()

            def O(**attrs):
                return pk.new_instance(cls, labels, **attrs)

            def P(**attrs):
                return pk.new_instance(pcls, labels, **attrs)

            for sname, build in shapes(O, P).items():
                if pi >= 1 and 'plain' not in sname:
                    continue
                for proto in (2, 3, 4, 5):
                    g = build()
                    feats = pk.features(g)
                    sym, detail = judge(g, proto)
                    n_enum += 1
                    chk.case((sname, vi, pi, proto) if feats != 'no-optin' else None)
                    chk.count('shape_' + ('ok' if sym is None else 'fail'))
                    if sym is not None:
                        chk.violation('%s:%s' % (sym, pk.primary(feats)),
                                      'shape %r, class variant %s, protocol %d: %s (%s)' % (sname, VARIANTS[vi], proto, sym, detail),
                                      {'shape': sname, 'variant': VARIANTS[vi], 'plain_variant': pi, 'protocol': proto, 'features': feats, 'detail': detail, 'graph': short(canon(g), 500)})
                    elif vi == 0 and proto == 4 and sname in ('child1', 'list-top', 'top+prims'):
                        chk.sample({'shape': sname, 'variant': VARIANTS[vi], 'graph': short(canon(g), 300), 'verdict': 'held'})
    chk.extra['exhaustive'] = True
    chk.extra['enumerated_arrangements'] = n_enum
    falsy_states(chk)

    # mixed variants inside one graph + random graphs
    from checks.c13 import gen_graph, gen_specs, build_hierarchy
    n_h = 200 if thorough else 40
    for hi in range(n_h):
        specs = gen_specs(r, declaring=True)
        for s in specs:
            s['slots'] = None
            s['listbase'] = False
            s['newargs'] = False
            s['reduce'] = False
            if s['statekind'] == 'tuple':
                s['setstate'] = True
        classes, w = build_hierarchy(specs, registry)
        if w is not None or not classes:
            continue
        if any(pk.mro_opt_in_model(c) == 'inconsistent' for c in classes):
            continue
        mix = classes + [r.choice(variants), plains[0]]
        for gi in range(20 if thorough else 8):
            labels = pk.Labels()
            g = gen_graph(r, mix, labels, depth=r.choice([2, 3, 4]))
            feats = pk.features(g)
            if feats == 'no-optin':
                continue
            n_opt = sum(1 for o in pk.walk_instances(g) if pk.is_optin(o))
            proto = r.choice([2, 3, 4, 5])
            import pickle
            try:
                LOG.clear()
                if canon(pickle.loads(pickle.dumps(g, protocol=proto))) != canon(g):
                    continue
            except BaseException:  # noqa  (hierarchy that standard pickle cannot round-trip either)
                chk.count('random_skipped_std_pickle_fails')
                continue
            try:
                sym, detail = judge(g, proto)
            except RecursionError:
                continue
            chk.case(('rand', hash(str(canon(g))), proto))
            chk.count('random_' + ('ok' if sym is None else 'fail'))
            chk.count('random_graphs_with_%s_optin' % (n_opt if n_opt < 5 else '5+'))
            if sym is not None:
                chk.violation('%s:%s' % (sym, pk.primary(feats)), 'random graph (%d opt-in instances, features %s), protocol %d: %s (%s)' % (n_opt, feats, proto, sym, detail),
                              {'specs': specs, 'protocol': proto, 'features': feats, 'detail': detail, 'graph': short(canon(g), 600)})
    file_api(chk, variants, plains, thorough)
    chk.assumptions = ['generated opt-in classes keep their attributes in __dict__ (no __slots__-only opt-in classes)',
                       'known-finding keys are <symptom>:<arrangement features>; a graph failing with a listed symptom for a different reason but with the same features would be masked']
    return chk.finish()


def file_api(chk, variants, plains, thorough):
    """dump()/load() on one stream: several graphs spooled one after the other and a trailer of foreign bytes; each
    load() must return exactly the next graph (as pickle.load does) and leave the rest of the stream alone."""
    import io
    r = rng('c14file')
    ok_builders = []
    for vi, cls in enumerate(variants):
        labels = pk.Labels()

        def O(cls=cls, labels=labels, **attrs):
            return pk.new_instance(cls, labels, **attrs)

        def P(labels=labels, **attrs):
            return pk.new_instance(plains[0], labels, **attrs)

        for sname, build in shapes(O, P).items():
            g = build()
            if pk.features(g) == 'no-optin':
                continue
            try:
                if judge(g, 4)[0] is None:
                    ok_builders.append((sname, vi, build))
            except RecursionError:
                pass
    LOG.clear()
    for si in range(60 if thorough else 15):
        picks = [r.choice(ok_builders) for _ in range(r.randint(2, 5))]
        proto = r.choice([2, 3, 4, 5])
        f = io.BytesIO()
        want = []
        for sname, vi, build in picks:
            g = build()
            want.append(canon(g))
            rp.dump(g, f, protocol=proto)
        trailer = b'TRAILER-not-a-pickle'
        f.write(trailer)
        f.seek(0)
        chk.case(('file-api', si, tuple((n, v) for n, v, _ in picks), proto))
        chk.count('file_api_streams')
        prob = None
        for k, w in enumerate(want):
            try:
                out = rp.load(f)
            except BaseException as e:  # noqa
                prob = 'load-raised:%s:graph-%s-of-stream' % (type(e).__name__, 'first' if k == 0 else 'later')
                break
            if canon(out) != w:
                prob = 'shape:graph-%s-of-stream' % ('first' if k == 0 else 'later')
                break
            chk.count('file_api_loads_ok')
        if prob is None and f.read() != trailer:
            prob = 'bytes-after-the-last-pickle-consumed'
        LOG.clear()
        if prob:
            chk.violation('file-api:' + prob, 'stream of %d graphs %s + trailer, protocol %d: %s' % (len(picks), [n for n, _, _ in picks], proto, prob), {'shapes': [n for n, _, _ in picks], 'protocol': proto})


def replay(spec):
    import json
    print(json.dumps(spec, indent=1)[:4000])
    return 0


def falsy_states(chk):
    """Opt-in objects whose remote state is falsy but not None ({} / 0 / '' / () / False): standard
    unpickling still calls __setstate__ with it (BUILD is emitted for every state that is not None)."""
    import pickle
    import vlib.genmod as genmod
    from pyworkers.remote_pickle import SupportRemoteGetState

    def mk(name, value, marker, with_setstate):
        ns = {'__module__': 'vlib.genmod', '__qualname__': name}

        def __getstate__(self, remote=False):
            LOG.append((id(self), name, 'getstate', remote))
            return value if remote else {'local': True}
        ns['__getstate__'] = __getstate__
        if with_setstate:
            def __setstate__(self, state):
                # remote_reduce hands dict states over as an OrderedDict: equal content is what matters
                LOG.append((id(self), name, 'setstate', repr(dict(state)) if isinstance(state, dict) else repr(state)))
                self.restored_from = state
            ns['__setstate__'] = __setstate__
        cls = type(name, (SupportRemoteGetState,) if marker else (object,), ns)
        setattr(genmod, name, cls)
        return cls

    n = 0
    for vi, value in enumerate([{}, 0, '', (), False, 0.0]):
        for marker in (True, False):
            for with_setstate in (True, False):
                if not with_setstate and not isinstance(value, dict):
                    continue   # without __setstate__ only dict states can be restored by standard unpickling
                n += 1
                cls = mk('F%d_%d_%d' % (vi, marker, with_setstate), value, marker, with_setstate)
                holder = make_holder()
                for pos in ('top', 'attr', 'list', 'shared'):
                    o = cls()
                    g = o if pos == 'top' else holder(a=o) if pos == 'attr' else [o, 1] if pos == 'list' else [o, (o,)]
                    for proto in (2, 4):
                        LOG.clear()
                        sym = None
                        try:
                            out = rp.loads(rp.dumps(g, protocol=proto))
                        except BaseException as e:  # noqa
                            sym = 'loads-or-dumps-raised:' + type(e).__name__
                            out = None
                        log = list(LOG)
                        LOG.clear()
                        chk.case(('falsy', repr(value), marker, with_setstate, pos, proto))
                        chk.count('falsy_state_cases')
                        if sym is None:
                            r = out if pos == 'top' else out.a if pos == 'attr' else out[0]
                            gets = [x for x in log if x[2] == 'getstate']
                            sets = [x for x in log if x[2] == 'setstate']
                            if len(gets) != 1 or gets[0][3] is not True:
                                sym = 'getstate-count-or-flag'
                            elif with_setstate and (len(sets) != 1 or sets[0][3] != repr(value)):
                                sym = 'setstate-not-called-with-falsy-state'
                            elif '__setstate__' in vars(r):
                                sym = 'stray-setstate-attribute'
                            elif pos == 'shared' and out[1][0] is not out[0]:
                                sym = 'sharing-lost'
                        if sym:
                            chk.violation('%s:falsy-state' % sym, 'opt-in object with remote state %r (%s, %s __setstate__) at position %s, protocol %d: %s; hook log %s' % (
                                value, 'marker' if marker else 'duck-typed', 'with' if with_setstate else 'without', pos, proto, sym, short(log, 200)),
                                {'state': repr(value), 'marker': marker, 'with_setstate': with_setstate, 'position': pos, 'protocol': proto, 'log': short(log, 400)})


def make_holder():
    import vlib.genmod as genmod
    if not hasattr(genmod, 'PlainHolder'):
        class PlainHolder:
            def __init__(self, **kw):
                self.__dict__.update(kw)
        PlainHolder.__module__ = 'vlib.genmod'
        PlainHolder.__qualname__ = 'PlainHolder'
        genmod.PlainHolder = PlainHolder
    return genmod.PlainHolder
