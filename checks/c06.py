"""C06 - a persistent result stream is a correct prefix and always ends, whatever happens.

Monitor: real persistent workers with 0-5 unique-id inputs are terminated at
every eval-breaker point of the child loop, SIGKILLed at every line of it, hit
by a target exception on the j-th input, and (remote kind) lose their child
while the parent-side forwarding thread is paused at each of its lines.
Oracle over the recorded stream: prefix of the model sequence (no reorder,
duplicate, foreign or corrupt value), results_iter() stops, next_result()
raises queue.Empty, and a Pool-style multiplexing consumer gets an end marker
or EOF."""
import os

from vlib import lpi
from vlib.common import Check, pmap, workdir, cleanup, short, run_case
from checks import lp

EXPECT = [[i, 15] for i in range(1, 9)]


def kind_of(cls):
    return cls.replace('Worker', '')


def expected_for(scen):
    inputs = lp.SCEN_PERS[scen]['inputs']
    out = []
    for inp in inputs:
        if len(inp) >= 4 and inp[3]:
            break
        out.append([inp[0], 15 if len(inp) < 3 else sum(range(inp[2]))])
    return out


def judge(chk, case, mech, mux=False):
    dg = lp.digest(case)
    cls, scen = case['cls'], case['scen']
    if dg['fatal'] or (dg['timed_out'] and not dg['hangs']):
        chk.inconclusive('case did not complete (%s)' % (dg['fatal'] or 'watchdog'), lp.witness(case, dg))
        return
    exp = expected_for(scen)
    probs = []
    if mux:
        vals = [m[2] for m in dg['mux'] if m[1]]
        counters = [m[0] for m in dg['mux'] if m[1]]
        end = dg['mux_end']
        if end not in ('marker', 'eof'):
            probs.append('mux-consumer-%s' % end)
        if counters != list(range(1, len(counters) + 1)):
            probs.append('counter-not-monotone')
    else:
        vals = dg['results']
        if not dg['observations']:
            if dg['hangs']:
                probs.append('blocked-%s' % dg['hangs'][0]['name'].split(':')[0])
            else:
                chk.count('death_not_observed')
                return
        else:
            if dg['stream_end'] != 'stop':
                probs.append('results_iter-%s' % dg['stream_end'])
            ae = dg['after_end'] or {}
            if ae.get('hang'):
                probs.append('next_result-blocks-after-death')
            elif not ae.get('empty'):
                probs.append('next_result-after-end-not-Empty')
    if vals != exp[:len(vals)]:
        if sorted(map(str, vals)) == sorted(map(str, exp[:len(vals)])):
            probs.append('stream-reordered')
        elif len(set(map(str, vals))) != len(vals):
            probs.append('stream-duplicate')
        else:
            probs.append('stream-foreign-or-corrupt-value')
    chk.count('prefix_len_%d_of_%d' % (len(vals), len(exp)))
    if probs:
        chk.violation(('terminate-inside-stdlib-lock-internals:%s' % kind_of(cls)) if mech.endswith('@stdlib-lock-internals') else '%s:%s:%s' % (probs[0], kind_of(cls), mech),
                      '%s/%s %s: %s; stream %s expected prefix of %s; end=%s' % (cls, scen, mech, ', '.join(probs), short(vals, 150), short(exp, 100), dg['mux_end'] if mux else dg['stream_end']),
                      dict(lp.witness(case, dg), stream=vals, expected=exp, mux_end=dg['mux_end'], stream_end=dg['stream_end'], after_end=dg['after_end']))
    elif len(chk.samples) < 5 and dg['point']:
        chk.sample({'cls': cls, 'scenario': scen, 'fault': mech, 'landing': (dg['point'].get('stack') or [None])[0], 'stream': vals, 'end': dg['mux_end'] if mux else dg['stream_end']})


def mech_of(dg, what):
    p = dg['point']
    block = lp.run_block(p)
    sending = any(fr[1] in ('_send_result', '_cleanup', 'send_msg', 'put', 'send') for fr in (p or {}).get('stack') or [])
    if lp.stdlib_internal(p):
        return '%s@stdlib-lock-internals' % what
    return '%s@%s%s' % (what, block, '/in-send-or-cleanup' if sending else '')


def run(tier):
    thorough = tier == 'thorough'
    chk = Check('C06', 'fault_enumeration', tier,
                'three persistent classes x 0-5 unique-id inputs x {terminate at every eval-breaker point of the child, SIGKILL at every line of the child (process/remote, also a remote worker created inside a context), target exception on input j, '
                'child killed while the remote forwarding thread is paused at each of its lines} x {results_iter/next_result consumer, Pool-style multiplexing consumer}; '
                'distinct non-trivial = distinct (class, scenario, fault, landing point)')
    scens = ['p0', 'p1', 'p3', 'p5'] if thorough else ['p0', 'p3']
    rep = 0 if thorough else 3
    cap = None if thorough else 32
    # a) terminate at every EBP, iterator consumer
    cases, _ = lp.run_matrix(tier, lp.PERSISTENT, [], scens, 'c06t', extra_repeats=rep, per_class_cap=cap)
    lp.require_classes(chk, cases, lp.PERSISTENT, 'terminate-matrix')
    for c in cases:
        dg = lp.digest(c)
        if dg['point'] is None:
            chk.count('point_not_reached')
            continue
        chk.case(('term', c['cls'], c['scen'], dg['point']['kind'], dg['point']['func'], dg['point']['line']))
        chk.count('terminate_cases')
        judge(chk, c, mech_of(dg, 'terminate'))
    # b) terminate at every EBP, multiplexing consumer on a caller-supplied Pipe (as the Pool does)
    cases, _ = lp.run_matrix(tier, lp.PERSISTENT, [], ['p3'] if not thorough else ['p1', 'p3'], 'c06m', extra_repeats=rep, per_class_cap=cap, spec_extra={'mux': True})
    lp.require_classes(chk, cases, lp.PERSISTENT, 'mux-terminate-matrix')
    for c in cases:
        dg = lp.digest(c)
        if dg['point'] is None:
            chk.count('point_not_reached')
            continue
        chk.case(('mux', c['cls'], c['scen'], dg['point']['kind'], dg['point']['func'], dg['point']['line']))
        chk.count('mux_terminate_cases')
        judge(chk, c, mech_of(dg, 'mux-terminate'), mux=True)
    # c) SIGKILL at every line, both consumers
    for mux in (False, True):
        cases, _ = lp.run_matrix(tier, ['PersistentProcessWorker', 'PersistentRemoteWorker'], [], (['p3'] if not thorough else ['p1', 'p3']), 'c06k%d' % mux, events='line', inject_action='sigkill',
                                 extra_repeats=rep, per_class_cap=(None if thorough else 20), spec_extra=({'mux': True} if mux else None))
        for c in cases:
            dg = lp.digest(c)
            if dg['point'] is None:
                chk.count('point_not_reached')
                continue
            chk.case(('kill', mux, c['cls'], c['scen'], dg['point']['func'], dg['point']['line']))
            chk.count('sigkill_cases')
            judge(chk, c, mech_of(dg, 'mux-sigkill' if mux else 'sigkill'), mux=mux)
    # c2) the same kills for a remote worker created inside a context (its data socket has been handed from the server
    #     to the context's helper process)
    for mux in (False, True):
        cases, _ = lp.run_matrix(tier, ['PersistentRemoteWorker'], [], ['p3'], 'c06kc%d' % mux, events='line', inject_action='sigkill',
                                 extra_repeats=rep, per_class_cap=(None if thorough else 12), spec_extra=dict({'mux': True} if mux else {}, in_context=True))
        for c in cases:
            dg = lp.digest(c)
            if dg['point'] is None:
                chk.count('point_not_reached')
                continue
            chk.case(('kill-in-context', mux, c['cls'], c['scen'], dg['point']['func'], dg['point']['line']))
            chk.count('sigkill_in_context_cases')
            judge(chk, c, mech_of(dg, 'in-context-mux-sigkill' if mux else 'in-context-sigkill'), mux=mux)
    # d) target exception on the j-th input
    wd = workdir('c06')
    jobs = [(cls, scen, mux) for cls in lp.PERSISTENT for scen in ('pfail1', 'pfail', 'pfail3') for mux in (False, True)]
    # a result that arrives but cannot be rebuilt in the parent (remote kind: the forwarding thread is the one that rebuilds):
    # what can be obtained is still a prefix, and the stream ends
    jobs += [('PersistentRemoteWorker', 'pbad2', mux) for mux in (False, True)]
    # inputs of different shapes (no fault at all): every result still belongs to its own input
    jobs += [(cls, 'pmix', mux) for cls in lp.PERSISTENT for mux in (False, True)]

    def one(job):
        cls, scen, mux = job
        spec, own = lp.scenario_spec(cls, scen)
        if mux:
            spec['mux'] = True
        res = run_case('vlib.wcase:lifecycle', spec, os.path.join(wd, 'x_%s_%s_%d' % (cls, scen, mux)), timeout=120)
        cleanup(res['dir'])
        return job, res

    for job, res in pmap(one, jobs, 8):
        cls, scen, mux = job
        case = dict(cls=cls, scen=scen, k=-1, own=None, res=res, rec_event=None)
        chk.case(('exc', cls, scen, mux))
        chk.count('target_exception_cases')
        judge(chk, case, 'target-exception', mux=mux)
    # d2) the child is killed while a result larger than the pipe buffer is in flight (nobody is reading yet): the
    #     message is cut short on the wire
    killed_mid_send(chk, tier, wd)
    # d3) the consumer is already blocked waiting for the next result when the worker is ended
    blocked_consumers(chk, tier, wd)
    # d4) a pool worker killed during a run, its own stream read directly after the Pool has dropped its endpoint
    dead_pool_workers(chk, tier, wd)
    # e) remote: child killed while the parent-side forwarding thread is paused at each of its lines
    forwarding(chk, tier, wd)
    cleanup(wd)
    chk.assumptions = ['every input carries a unique id, so a result identifies the input that produced it',
                       'mux consumer bound: 8 s without marker or EOF after the worker is dead = blocked consumer (the peer is dead, nothing can arrive)']
    return chk.finish(min_distinct=60)


def blocked_case(spec, log):
    """A consumer is already blocked waiting for the next result when the worker is ended."""
    import logging
    import queue
    import signal
    import threading
    import time
    logging.disable(logging.CRITICAL)
    from vlib import vtargets
    from vlib.wcase import get_class
    from vlib.common import pid_running
    from pyworkers.utils import Pipe
    cls, _ = get_class(spec['cls'])
    server = None
    kw = {}
    if 'Remote' in spec['cls']:
        from pyworkers.remote_server import spawn_server
        server = spawn_server(('127.0.0.1', 0))
        kw['host'] = server.addr
    if spec['consumer'] == 'mux':
        kw['results_pipe'] = Pipe()
    try:
        w = cls(vtargets.restart_target, **kw)
        w.enqueue('a')                                       # one ordinary result first
        w.enqueue('b', kind=('swallow' if spec['target'] == 'swallow' else 'slow' if spec['target'] == 'idle' else 'swallow1'))
        if spec['target'] == 'idle':
            pass                                             # after 'b' the worker is idle, waiting for input
        box = {'got': []}

        def consumer():
            try:
                if spec['consumer'] == 'next':
                    while True:
                        box['got'].append(w.next_result()[0])
                elif spec['consumer'] == 'iter':
                    for v in w.results_iter():
                        box['got'].append(v[0])
                    box['end'] = 'stop'
                else:
                    import multiprocessing.connection as mpc
                    ep = w.results_endpoint
                    while True:
                        mpc.wait([ep])
                        try:
                            msg = ep.recv()
                        except EOFError:
                            box['end'] = 'eof'
                            break
                        if not msg[1]:
                            box['end'] = 'marker'
                            break
                        box['got'].append(msg[2][0])
            except queue.Empty:
                box['end'] = 'Empty'
            except BaseException as e:  # noqa
                box['end'] = 'raised:' + type(e).__name__

        t = threading.Thread(target=consumer, daemon=True)
        t.start()
        time.sleep(spec.get('settle', 0.9))                  # 'a' (and for idle: 'b') delivered, the consumer is blocked now
        blocked = t.is_alive()
        how = spec['how']
        if how == 'sigkill':
            os.kill(w.pid, signal.SIGKILL)
            ret = None
        else:
            a = {'timeout': 1}
            if 'Thread' in spec['cls']:
                a['force'] = False
            else:
                a['force'] = (how == 'force')
            ret = w.terminate(**a)
            if ret is False:
                ret = [ret, w.terminate(**dict(a, timeout=2))]
        t0 = time.monotonic()
        dead = w.wait(10)
        t.join(8)
        log.ev('blocked', was_blocked=blocked, terminate=ret, dead=dead, released=not t.is_alive(), end=box.get('end'), got=box['got'], waited=round(time.monotonic() - t0, 2),
               pid_running=(pid_running(w.pid) if w.pid != os.getpid() else None))
        return {'ok': True}
    finally:
        if server is not None:
            try:
                server.terminate(timeout=1, force=True)
            except BaseException:  # noqa
                pass


def blocked_consumers(chk, tier, wd):
    jobs = []
    for cls in lp.PERSISTENT:
        thread = 'Thread' in cls
        for consumer in ('next', 'iter', 'mux'):
            for target, how in ((('idle', 'graceful'), ('swallow1', 'graceful')) if thread else
                                (('idle', 'graceful'), ('idle', 'force'), ('idle', 'sigkill'), ('swallow', 'force'), ('swallow', 'sigkill'), ('swallow1', 'graceful'))):
                jobs.append(dict(cls=cls, consumer=consumer, target=target, how=how))

    def one(ij):
        i, sp = ij
        res = run_case('checks.c06:blocked_case', sp, os.path.join(wd, 'bc%d' % i), timeout=120)
        cleanup(res['dir'])
        return sp, res

    for sp, res in pmap(one, list(enumerate(jobs)), 8):
        ev = [e for e in res['events'] if e.get('ev') == 'blocked']
        chk.case(('blocked-consumer', sp['cls'], sp['consumer'], sp['target'], sp['how']))
        chk.count('blocked_consumer_cases')
        if not ev:
            chk.inconclusive('blocked-consumer case incomplete', {'spec': sp, 'stderr': res['stderr'][-400:], 'timed_out': res['timed_out']})
            continue
        e = ev[0]
        if not e['was_blocked'] or not e['dead']:
            chk.count('blocked_consumer_precondition_missed')
            continue
        probs = []
        if not e['released']:
            probs.append('consumer-blocked-before-the-death-is-never-released')
        elif e['end'] not in ({'next': ('Empty',), 'iter': ('stop',), 'mux': ('marker', 'eof')}[sp['consumer']]):
            probs.append('consumer-ended-with-%s' % e['end'])
        if e['got'] != ['a', 'b'][:len(e['got'])]:
            probs.append('stream-not-a-prefix')
        if probs:
            chk.violation('%s:%s:%s-consumer:%s' % (probs[0], kind_of(sp['cls']), sp['consumer'], sp['how'] + ('-uncooperative' if sp['target'] == 'swallow' else '')),
                          '%s, %s consumer blocked waiting when the worker (%s target) was ended by %s: %s; %s' % (sp['cls'], sp['consumer'], sp['target'], sp['how'], ', '.join(probs), short(e, 300)), {'spec': sp, 'event': e})


def pool_case(spec, log):
    """A worker of a Pool is killed during a run (the Pool reads EOF from its pipe and forgets it); afterwards the
    worker's own stream is read directly."""
    import logging
    import queue
    import signal
    import time
    logging.disable(logging.CRITICAL)
    from vlib import vtargets
    from pyworkers.pool import Pool, PoolError
    from pyworkers.worker import WorkerType
    server = None
    try:
        p = Pool(vtargets.pool_target, retry=True, close_timeout=2)
        with p:
            for k in spec['kinds']:
                kw = {}
                if k == 'REMOTE':
                    if server is None:
                        from pyworkers.remote_server import spawn_server
                        server = spawn_server(('127.0.0.1', 0))
                    kw['host'] = server.addr
                p.add_worker(WorkerType[k], args=[None, []], **kw)
            victim = [w for w in p.workers if not w.is_thread][0]
            killed = []

            def cb(worker, event, *a):
                if event == 'finished' and not killed:
                    killed.append(victim.pid)
                    os.kill(victim.pid, signal.SIGKILL)
                    time.sleep(0.3)
            try:
                ret = p.run(iter(range(spec['n'])), worker_callback=cb, worker_extra_pending_inputs=1)
                outcome = 'returned:%d' % len(ret)
            except PoolError:
                outcome = 'PoolError'
            reads = {}
            for i, w in enumerate(p.workers):
                if w.is_alive():
                    continue
                r = {}
                try:
                    r['iter'] = 'stop:%d' % len(list(w.results_iter()))
                except BaseException as e:  # noqa
                    r['iter'] = 'raised:' + type(e).__name__
                for blk in (False, True):
                    try:
                        w.next_result(block=blk)
                        r['next_%s' % blk] = 'value'
                    except queue.Empty:
                        r['next_%s' % blk] = 'Empty'
                    except BaseException as e:  # noqa
                        r['next_%s' % blk] = 'raised:' + type(e).__name__
                reads[str(i)] = r
            log.ev('pool_reads', outcome=outcome, killed=bool(killed), reads=reads)
        return {'ok': True}
    finally:
        if server is not None:
            try:
                server.terminate(timeout=1, force=True)
            except BaseException:  # noqa
                pass


def dead_pool_workers(chk, tier, wd):
    jobs = [dict(kinds=k, n=n) for k in (['PROCESS', 'PROCESS'], ['REMOTE', 'PROCESS'], ['PROCESS', 'THREAD']) for n in (6, 12)]

    def one(ij):
        i, sp = ij
        res = run_case('checks.c06:pool_case', sp, os.path.join(wd, 'pc%d' % i), timeout=120)
        cleanup(res['dir'])
        return sp, res

    for sp, res in pmap(one, list(enumerate(jobs)), 6):
        ev = [e for e in res['events'] if e.get('ev') == 'pool_reads']
        chk.case(('dead-pool-worker', tuple(sp['kinds']), sp['n']))
        chk.count('dead_pool_worker_cases')
        if not ev:
            chk.inconclusive('pool case incomplete', {'spec': sp, 'stderr': res['stderr'][-400:], 'timed_out': res['timed_out']})
            continue
        for i, r in ev[0]['reads'].items():
            chk.count('dead_pool_workers_read')
            bad = [k + '=' + v for k, v in r.items() if v.startswith('raised') or (k.startswith('next') and v != 'Empty')]
            if bad:
                chk.violation('%s:%s:dead-pool-worker-read-directly' % (bad[0].split('=')[1].replace('raised:', 'stream-read-raised-'), sp['kinds'][0].capitalize()),
                              'pool %s, a worker SIGKILLed during the run, its stream read directly afterwards: %s' % (sp['kinds'], r), {'spec': sp, 'event': ev[0]})
                break


def killed_mid_send(chk, tier, wd):
    import re
    jobs = []
    for cls in ('PersistentProcessWorker', 'PersistentRemoteWorker'):
        for mux in (False, True):
            for size in ((200000, 3000000) if tier != 'thorough' else (70000, 200000, 3000000, 20000000)):
                for settle in (0.3, 0.8):
                    jobs.append((cls, mux, size, settle))

    def one(job):
        cls, mux, size, settle = job
        spec = dict(cls=cls, target='big_uid', targs=[0, 10], inputs=[[1, 100], [2, size], [3, 100]], quiet=False, close_before_point=False,
                    action=dict(kind='signal', sig='SIGKILL', settle=settle), expect_point=False, wait_timeout=20)
        if mux:
            spec['mux'] = True
        res = run_case('vlib.wcase:lifecycle', spec, os.path.join(wd, 'ms_%s_%d_%d_%s' % (cls, mux, size, settle)), timeout=120)
        cleanup(res['dir'])
        return job, res

    for job, res in pmap(one, jobs, 8):
        cls, mux, size, settle = job
        case = dict(cls=cls, scen='big-in-flight', k=-1, own=None, res=res, rec_event=None)
        dg = lp.digest(case)
        chk.case(('killed-mid-send', cls, mux, size, settle))
        chk.count('killed_mid_send_cases')
        if dg['fatal'] or (dg['timed_out'] and not dg['hangs']):
            chk.inconclusive('case did not complete (%s)' % (dg['fatal'] or 'watchdog'), lp.witness(case, dg))
            continue
        probs = []
        if mux:
            vals = [m[2] for m in dg['mux'] if m[1]]
            if dg['mux_end'] not in ('marker', 'eof'):
                probs.append('mux-consumer-%s' % dg['mux_end'])
        else:
            vals = dg['results']
            if not dg['observations']:
                probs.append('blocked-%s' % dg['hangs'][0]['name'].split(':')[0] if dg['hangs'] else 'death-not-observed')
            else:
                if dg['stream_end'] != 'stop':
                    probs.append('results_iter-%s' % dg['stream_end'])
                ae = dg['after_end'] or {}
                if ae.get('hang'):
                    probs.append('next_result-blocks-after-death')
                elif not ae.get('empty'):
                    probs.append('next_result-after-end-not-Empty')
        uids = []
        for v in vals:
            m = re.match(r'\[(\d+),', v if isinstance(v, str) else repr(v))
            uids.append(int(m.group(1)) if m else None)
        if uids != [1, 2, 3][:len(uids)]:
            probs.append('stream-not-a-prefix')
        chk.count('killed_mid_send_prefix_%d' % len(uids))
        if probs:
            chk.violation('%s:%s:killed-while-large-result-in-flight%s' % (probs[0], kind_of(cls), ':mux' if mux else ''),
                          '%s killed %.1f s after a %d-byte result was produced (consumer not reading yet): %s; ids read %s' % (cls, settle, size, ', '.join(probs), uids),
                          dict(lp.witness(case, dg), ids=uids, mux_end=dg['mux_end'], stream_end=dg['stream_end'], after_end=dg['after_end']))


def forwarding(chk, tier, wd):
    cls = 'PersistentRemoteWorker'
    spec0, _ = lp.scenario_spec(cls, 'p3')
    files = None
    tr, res = lpi.record(spec0, os.path.join(wd, 'fw_rec'), events='line', arm_func='_fetch_results', arm_cls=cls)
    # the record helper keeps the longest trace; the frontend thread lives in the case process
    pts = lpi.select([e for e in tr if e.get('func') in ('_fetch_results', 'recv_msg', '_recv_exact')], tier, 'c06fw', kinds=('line',), extra_repeats=(0 if tier == 'thorough' else 4))
    chk.count('forwarding_thread_lines_recorded', len(tr))
    if not pts:
        chk.inconclusive('no forwarding-thread trace recorded', {'stderr': res['stderr'][-500:]})
        return
    jobs = [(k, mux, sig) for k in pts for mux in (False, True) for sig in (('SIGKILL',) if tier != 'thorough' else ('SIGKILL', 'SIGTERM'))]

    def one(job):
        k, mux, sig = job
        spec, own = lp.scenario_spec(cls, 'p3')
        spec['action'] = dict(kind='signal', sig=sig, settle=0.05)
        if mux:
            spec['mux'] = True
        r = lpi.act(spec, os.path.join(wd, 'fw_%d_%d_%s' % (k, mux, sig)), k, action='pause', events='line', arm_func='_fetch_results', arm_cls=cls, end=['_fetch_results'], pause_s=2, at=lpi.at_of(tr, k))
        cleanup(r['dir'])
        return job, r

    for job, r in pmap(one, jobs, 8):
        k, mux, sig = job
        case = dict(cls=cls, scen='p3', k=k, own=None, res=r, rec_event=None)
        dg = lp.digest(case)
        if dg['point'] is None:
            chk.count('point_not_reached')
            continue
        chk.case(('fw', k, mux, sig))
        chk.count('forwarding_pause_cases')
        judge(chk, case, 'child-%s-while-forwarding-thread-paused@%s' % (sig, dg['point'].get('func')), mux=mux)


def replay(spec):
    from checks import lp
    return lp.replay_case(spec)
