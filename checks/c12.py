"""C12 - stopping the server reaps its children and every parent finds out.

Monitor: a real server with 0-4 children in mixed states (cooperative loop,
exception-swallowing loop, idle persistent worker, finished worker, worker
inside a context, empty context) is stopped by terminate() or SIGTERM - in
steady state and while a worker is starting up (server paused inside the
hand-shake by the injector).  Oracle: /proc census of the server's descendants,
and for each parent-side worker: dead within the bound, has_error True,
WorkerTerminatedError where the child could report, no accessor blocks."""
import os

from vlib.common import Check, rng, run_case, pmap, workdir, cleanup, short

STATES = ['coop', 'swallow', 'idle-persistent', 'finished', 'finished-unobserved', 'busy-persistent', 'in-context', 'empty-context', 'swallow-in-context', 'idle-in-context']


def case(spec, log):
    import glob
    import logging
    import signal
    import threading
    import time
    logging.disable(logging.CRITICAL)
    from vlib import vtargets
    from vlib.case import Bounded, HANG, Raised, describe_exc
    from vlib.common import pid_running, descendants, proc_stat
    from pyworkers.remote import RemoteWorker
    from pyworkers.persistent_remote import PersistentRemoteWorker
    from pyworkers.remote_context import RemoteContext
    from pyworkers.remote_server import spawn_server
    bounded = Bounded(log)
    d = spec['dir']
    md = os.path.join(d, 'marks')
    os.makedirs(md, exist_ok=True)
    server = spawn_server(('127.0.0.1', 0))
    host = server.addr
    workers = []
    contexts = []
    try:
        for i, st in enumerate(spec['children']):
            sub = os.path.join(md, str(i))
            os.makedirs(sub, exist_ok=True)
            if st == 'coop':
                w = RemoteWorker(vtargets.py_loop, args=[sub, None], host=host)
            elif st == 'swallow':
                w = RemoteWorker(vtargets.swallow_loop, args=[sub], host=host)
            elif st == 'idle-persistent':
                w = PersistentRemoteWorker(vtargets.p_work, args=[0, sub], host=host)
                w.enqueue(1)
                w.next_result()
            elif st == 'busy-persistent':
                w = PersistentRemoteWorker(vtargets.py_loop, args=[sub, None], host=host)
                w.enqueue(sub, None)
            elif st == 'finished':
                w = RemoteWorker(vtargets.ret_value, args=[5], host=host)
                w.wait(10)
                log.ev('finished_before', i=i, has_error=w.has_error, result=repr(w.result))
            elif st == 'finished-unobserved':
                # finished by itself; nobody asks the server about it (the server has not "seen" it die)
                w = RemoteWorker(vtargets.ret_value, args=[5], host=host)
                time.sleep(0.6)
            elif st == 'in-context':
                ctx = RemoteContext(100 + i, host=host, target=vtargets.py_loop, args=[sub, None])
                contexts.append(ctx)
                w = PersistentRemoteWorker(None, host=host, context=ctx.context_id)
                w.enqueue()
            elif st == 'swallow-in-context':
                ctx = RemoteContext(100 + i, host=host, target=vtargets.swallow_loop, args=[sub])
                contexts.append(ctx)
                w = PersistentRemoteWorker(None, host=host, context=ctx.context_id)
                w.enqueue()
            elif st == 'idle-in-context':
                ctx = RemoteContext(100 + i, host=host, target=vtargets.pecho)
                contexts.append(ctx)
                w = PersistentRemoteWorker(None, host=host, context=ctx.context_id)
            elif st == 'empty-context':
                ctx = RemoteContext(100 + i, host=host, target=vtargets.ret_value)
                contexts.append(ctx)
                continue
            workers.append((i, st, w))
        # let targets get going
        t0 = time.monotonic()
        need = [os.path.join(md, str(i), 'entered') for i, st, w in workers if st in ('coop', 'swallow', 'busy-persistent', 'in-context', 'swallow-in-context')]
        while time.monotonic() - t0 < 5 and not all(os.path.exists(p) for p in need):
            time.sleep(0.01)
        time.sleep(spec.get('settle', 0.2))
        starting = None
        if spec.get('startup_race'):
            # a further worker is being created while the server is stopped: the injector pauses the server
            # inside RemoteWorker.__setstate__ (k-th line) and publishes at_point
            box = {}

            def create_late():
                try:
                    box['w'] = RemoteWorker(vtargets.py_loop, args=[os.path.join(md, 'late'), None], host=host)
                except BaseException as e:  # noqa
                    box['exc'] = e
            os.makedirs(os.path.join(md, 'late'), exist_ok=True)
            starting = threading.Thread(target=create_late, daemon=True)
            starting.start()
            t0 = time.monotonic()
            while time.monotonic() - t0 < 8 and not glob.glob(os.path.join(d, 'at_point.*')):
                time.sleep(0.002)
            pt = glob.glob(os.path.join(d, 'at_point.*'))
            log.ev('startup_point', reached=bool(pt), info=(open(pt[0]).read()[:300] if pt else None))
        spid = server.pid
        desc_before = descendants(spid)
        log.ev('before_stop', server_pid=spid, descendants=desc_before, child_pids=[w.pid for _, _, w in workers])
        if spec['how'] == 'terminate':
            r = bounded('server.terminate', lambda: server.terminate(**({'timeout': spec['term_timeout']} if spec.get('term_timeout') else {})), 90)
        else:
            os.kill(spid, signal.SIGTERM)
            r = bounded('server.wait', lambda: server.wait(20), 60)
        log.ev('stopped', ret=(None if r is HANG or isinstance(r, Raised) else r), hang=(r is HANG))
        open(os.path.join(d, 'resume'), 'w').close()
        # census: poll until the descendants are gone (bound 10 s)
        t0 = time.monotonic()
        left = [p for p in desc_before if pid_running(p)]
        while left and time.monotonic() - t0 < 10:
            time.sleep(0.05)
            left = [p for p in desc_before if pid_running(p)]
        late = [p for p in descendants(spid)] if pid_running(spid) else []
        log.ev('census', still_running=[(p, (proc_stat(p) or {}).get('state'), (proc_stat(p) or {}).get('comm')) for p in left], server_running=pid_running(spid), gone_after=round(time.monotonic() - t0, 2))
        for i, st, w in workers:
            dead = bounded('wait:%d' % i, lambda: w.wait(10), 40)
            o = {'i': i, 'state': st, 'dead': (dead is True), 'hang': (dead is HANG)}
            if dead is True:
                for name in ('has_error', 'result', 'error'):
                    v = bounded('acc:%d:%s' % (i, name), lambda: getattr(w, name), 15)
                    if v is HANG:
                        o[name] = 'HANG'
                    elif isinstance(v, Raised):
                        o[name] = 'RAISED:' + type(v.exc).__name__
                    elif name == 'error':
                        o[name] = describe_exc(v)
                    else:
                        o[name] = repr(v)[:60] if name == 'result' else v
                if w.is_persistent:
                    it = bounded('stream:%d' % i, lambda: list(w.results_iter()), 20)
                    o['stream'] = 'HANG' if it is HANG else ('RAISED' if isinstance(it, Raised) else len(it))
            log.ev('worker', **o)
        if starting is not None:
            starting.join(30)
            log.ev('late_worker', constructor_returned=('w' in box), raised=(repr(box.get('exc'))[:100] if 'exc' in box else None), still_blocked=starting.is_alive())
        return {'ok': True}
    finally:
        try:
            for p in descendants(server.pid) + [server.pid]:
                os.kill(p, signal.SIGKILL)
        except OSError:
            pass


def judge(chk, spec, res):
    evs = res['events']
    cen = [e for e in evs if e.get('ev') == 'census']
    if not cen:
        hangs = [e for e in evs if e.get('ev') == 'hang']
        if hangs:
            chk.violation('blocked:%s:%s' % (hangs[0]['name'].split(':')[0], spec['how']), '%s: %s blocked; stack %s' % (short(spec, 200), hangs[0]['name'], hangs[0].get('stack1', [])[:4]), {'spec': spec, 'hang': hangs[0]})
        else:
            chk.inconclusive('case incomplete', {'spec': spec, 'stderr': res['stderr'][-500:], 'timed_out': res['timed_out'], 'last': evs[-2:]})
        return
    cen = cen[0]
    probs = []
    mech = spec['how'] + ('+startup-race' if spec.get('startup_race') else '')
    if cen['still_running']:
        probs.append('server-descendant-survives:%s' % cen['still_running'][0][1])
    if cen['server_running']:
        probs.append('server-still-running')
    fin = {e['i']: e for e in evs if e.get('ev') == 'finished_before'}
    # server.terminate() joins the server for 1 s and then force-kills it, which makes the server kill its remaining
    # children by signal: only when the server left by itself well within that second has every child demonstrably
    # been asked gracefully (and was therefore able to report)
    stop_dur = [e['dur'] for e in evs if e.get('ev') == 'return' and e.get('name') == 'server.terminate']
    graceful_for_all = bool(stop_dur) and stop_dur[0] < 0.8 * (spec.get('term_timeout') or 1)
    capable = ('coop', 'idle-persistent', 'busy-persistent', 'in-context', 'idle-in-context', 'finished', 'finished-unobserved', 'empty-context')
    if spec['how'] == 'terminate' and (spec.get('term_timeout') or 0) >= 10 and stop_dur and not graceful_for_all and all(c in capable for c in spec['children']):
        # nothing keeps this server from leaving by itself, yet terminate() had to wait for its force path
        probs.append('server-did-not-act-on-the-terminate-request')
    for e in [e for e in evs if e.get('ev') == 'worker']:
        chk.count('parent_side_workers_observed')
        st = e['state']
        if e['hang']:
            probs.append('parent-wait-blocks:%s' % st)
            continue
        if not e['dead']:
            probs.append('parent-not-dead:%s' % st)
            continue
        if 'HANG' in (e.get('has_error'), e.get('result'), e.get('error'), e.get('stream')):
            probs.append('parent-accessor-blocks:%s' % st)
            continue
        if st == 'finished-unobserved':
            if e['has_error'] is not False or e['result'] != '5':
                probs.append('outcome-of-finished-worker-lost')
            continue
        if st == 'finished':
            f = fin.get(e['i'])
            if f and (e['has_error'] != f['has_error'] or e['result'] != f['result']):
                probs.append('finished-worker-outcome-changed')
            continue
        if e['has_error'] is not True:
            probs.append('parent-has_error-%s:%s' % (e['has_error'], st))
            continue
        et = e['error']['type'] if e['error'] else None
        chk.count('error_%s_%s_%s' % (st, spec['how'], et))
        if spec['how'] == 'terminate' and graceful_for_all and st in ('coop', 'idle-persistent', 'busy-persistent', 'in-context', 'idle-in-context') and et != 'WorkerTerminatedError' and (not spec.get('startup_race') or (spec.get('term_timeout') or 0) >= 10):
            probs.append('no-WorkerTerminatedError-from-reporting-child:%s:error=%s' % (st, et))
    late = [e for e in evs if e.get('ev') == 'late_worker']
    if late and late[0]['still_blocked']:
        probs.append('constructor-of-starting-worker-blocked-forever')
    if probs:
        chk.violation('%s:%s' % (probs[0], mech), 'children %s stopped by %s: %s' % (spec['children'], mech, ', '.join(probs)),
                      {'spec': spec, 'census': cen, 'workers': [e for e in evs if e.get('ev') == 'worker'], 'late': late, 'startup_point': [e for e in evs if e.get('ev') == 'startup_point'], 'stderr': res['stderr'][-300:]})
    elif len(chk.samples) < 4:
        chk.sample({'children': spec['children'], 'how': mech, 'census': cen, 'workers': [(e['state'], e.get('has_error'), (e.get('error') or {}).get('type')) for e in evs if e.get('ev') == 'worker']})


def run(tier):
    thorough = tier == 'thorough'
    chk = Check('C12', 'exploration', tier,
                '0-4 server children in mixed states {cooperative loop, swallowing loop, idle persistent, busy persistent, finished (observed by the parent or not), inside a context (cooperative, swallowing, idle), empty context} x {terminate() with the default / a 3 s / a 10 s timeout, SIGTERM} x shutdown moment '
                '{steady state, during worker start-up: server paused by the injector at lines of the hand-shake}; distinct non-trivial = distinct (children multiset order, how, moment)')
    r = rng('c12')
    jobs = []
    for st in STATES:
        for how in ('terminate', 'sigterm'):
            jobs.append(dict(children=[st], how=how))
    # the helper process of a context needs about as long to stop an unco-operative worker as the server allows the helper
    # itself: the outcome depends on which of the two deadlines fires first, so these are repeated
    for rep in range(8 if thorough else 3):
        for tt in (None, 3, 10):
            jobs.append(dict(children=['swallow-in-context'], how='terminate', rep=rep, term_timeout=tt))
            jobs.append(dict(children=['swallow-in-context', r.choice(STATES)], how='terminate', rep=rep, term_timeout=tt))
    jobs.append(dict(children=[], how='terminate'))
    jobs.append(dict(children=[], how='sigterm'))
    for _ in range(120 if thorough else 30):
        n = r.randint(2, 4)
        jobs.append(dict(children=[r.choice(STATES) for _ in range(n)], how=r.choice(['terminate', 'sigterm']), settle=r.choice([0.0, 0.2, 0.6]), term_timeout=r.choice([None, None, 3, 10])))
    wd = workdir('c12')
    # start-up race: record the server-side __setstate__ lines once, then pause at selected ones
    from vlib import lpi
    race = []
    # reference trace of the server's side of the hand-shake (lines of RemoteWorker.__setstate__ and its callees)
    rec_cfg = lpi.cfg('RemoteWorker', 'record', events='line', arm_func='__setstate__', end=['__setstate__'])
    rec_cfg['arm']['state_key'] = '_from_remote_parent'
    rres = run_case('checks.c12:case', dict(children=['coop'], how='terminate'), os.path.join(wd, 'rec'), timeout=120, inject=rec_cfg)
    import glob
    import json
    trace = []
    for f in glob.glob(os.path.join(wd, 'rec', 'trace.*.jsonl')):
        t = [json.loads(l) for l in open(f) if l.strip()]
        if len(t) > len(trace):
            trace = t
    own_lines = [e for e in trace if e.get('func') == '__setstate__' and e.get('kind') == 'line']
    chk.count('handshake_lines_recorded', len(own_lines))
    cleanup(os.path.join(wd, 'rec'))
    pick = own_lines if thorough else own_lines[::3] + own_lines[-4:]
    for e in pick:
        for how in (('terminate', 'sigterm') if thorough else (r.choice(['terminate', 'sigterm']),)):
            race.append(dict(children=[r.choice(['coop', 'idle-persistent'])], how=how, startup_race=True, k=e['i'], at=lpi.at_of(trace, e['i']), line=e['line'],
                             term_timeout=(10 if how == 'terminate' else None)))
    # the same race with a worker that has finished by itself earlier (its process has been collected by the time the
    # next one is started) next to a live one
    for e in (own_lines if thorough else own_lines[1::4]):
        for how in (('terminate', 'sigterm') if thorough else ('sigterm',)):
            race.append(dict(children=[r.choice(['finished', 'finished-unobserved', 'finished-unobserved']), 'coop'], how=how, startup_race=True, k=e['i'], at=lpi.at_of(trace, e['i']), line=e['line'],
                             term_timeout=(10 if how == 'terminate' else None)))

    def one(ij):
        i, sp = ij
        inject = None
        if sp.get('startup_race'):
            inject = lpi.cfg('RemoteWorker', 'act', events='line', k=sp['k'], action='pause', arm_func='__setstate__', end=['__setstate__'], pause_s=6, at=sp.get('at'))
            inject['skip_arms'] = sum(1 for c in sp['children'] if c in ('coop', 'swallow', 'finished', 'finished-unobserved'))
            inject['arm']['state_key'] = '_from_remote_parent'
        res = run_case('checks.c12:case', sp, os.path.join(wd, 'c%d' % i), timeout=300, inject=inject)
        cleanup(res['dir'])
        return sp, res

    for sp, res in pmap(one, list(enumerate(jobs + race)), 6):
        chk.case((tuple(sp['children']), sp['how'], sp.get('startup_race', False), sp.get('line'), sp.get('k'), sp.get('rep'), sp.get('term_timeout')))
        chk.count('configurations')
        chk.count('stop_by_' + sp['how'])
        if sp.get('startup_race'):
            pt = [e for e in res['events'] if e.get('ev') == 'startup_point']
            chk.count('startup_race_point_reached' if pt and pt[0]['reached'] else 'startup_race_point_not_reached')
        judge(chk, sp, res)
    cleanup(wd)
    chk.assumptions = ['descendants of the server are read from /proc before the stop; "gone shortly afterwards" = within 10 s',
                       'WorkerTerminatedError is demanded only for terminate() and children that can report (cooperative, idle or busy persistent, in a context); after SIGTERM or for swallowing targets error None is accepted',
                       'start-up race: the server is parked inside RemoteWorker.__setstate__ by the injector; at most one arm per process (the first workers of the configuration arm first: skip_arms)']
    return chk.finish(min_distinct=10)


def replay(spec):
    import json
    print(json.dumps(spec, indent=1)[:5000])
    return 0
