"""Shared landing-point engine for C01 / C03 (and helpers for C06 / C16):
scenario table, reference traces, one fresh worker per landing point, region
classification of a landing point, outcome shapes."""
import ast
import os
import threading

from vlib import lpi
from vlib.common import VERIF, pmap, workdir, cleanup, short

ONE_SHOT = ['ThreadWorker', 'ProcessWorker', 'RemoteWorker']
PERSISTENT = ['PersistentThreadWorker', 'PersistentProcessWorker', 'PersistentRemoteWorker']
ALL = ONE_SHOT + PERSISTENT

# scenario -> (target, targs, own outcome)
SCEN_ONE = {
    'loop': dict(target='py_loop', targs=['$DIR', 25], own=('value', '25')),
    'short': dict(target='short_work', targs=['$DIR'], own=('value', '7')),
    'raise': dict(target='short_raise', targs=['$DIR'], own=('error', 'CustomError')),
    'with': dict(target='with_block', targs=['$DIR', 15], own=('value', '15')),
    # result larger than the pipe buffer: multiprocessing writes header and body separately
    'bigret': dict(target='big_marked', targs=['$DIR', 100000], own=('value', repr(b'r' * 100000)[:160])),
}
SCEN_PERS = {
    'p2': dict(target='p_work', targs=[0, '$DIR'], inputs=[[1], [2]], own=('value', '2')),
    'pfail': dict(target='p_work', targs=[0, '$DIR'], inputs=[[1], [2, '$DIR', 4, True], [3]], own=('error', 'CustomError')),
    # the result of the second input cannot be rebuilt in the parent; two more inputs follow
    'pbad2': dict(target='p_work', targs=[0, '$DIR'], inputs=[[1], [2, '$DIR', 6, 'onlyhere'], [3], [4]], own=('error', None)),
    # inputs of different shapes: what one input overrides must not leak into the next
    'pmix': dict(target='p_work', targs=[0, '$DIR'], inputs=[[1], [2, '$DIR', 3], [3], [4, '$DIR', 5], [5]], own=('value', '5')),
    'p0': dict(target='p_work', targs=[0, '$DIR'], inputs=[], own=('value', '0')),
    'p1': dict(target='p_work', targs=[0, '$DIR'], inputs=[[1]], own=('value', '1')),
    'p3': dict(target='p_work', targs=[0, '$DIR'], inputs=[[1], [2], [3]], own=('value', '3')),
    'p5': dict(target='p_work', targs=[0, '$DIR'], inputs=[[1], [2], [3], [4], [5]], own=('value', '5')),
    'pfail1': dict(target='p_work', targs=[0, '$DIR'], inputs=[[1, '$DIR', 4, True], [2]], own=('error', 'CustomError')),
    'pfail3': dict(target='p_work', targs=[0, '$DIR'], inputs=[[1], [2], [3, '$DIR', 4, True], [4]], own=('error', 'CustomError')),
}
TARGET_FUNCS = {'py_loop', 'short_work', 'short_raise', 'with_block', 'p_work', 'big_marked'}


def scenario_spec(cls, scen):
    s = (SCEN_PERS if cls.startswith('Persistent') else SCEN_ONE)[scen]
    spec = dict(cls=cls, target=s['target'], targs=s['targs'], quiet=False)
    if 'inputs' in s:
        spec['inputs'] = s['inputs']
    return spec, s['own']


def thread_files():
    return lpi.MON_FILES + [threading.__file__]


def arm_args(cls, wide=False):
    """Thread kinds are armed at the start-up Event.set() of _run (landing points
    before _init_child are reachable as soon as the constructor returned).  wide: process kinds also
    monitor multiprocessing/connection.py (landing between the header and the body of a large send)."""
    if 'Thread' in cls:
        return dict(arm_func='set', arm_cls='Event', arm_caller='_run', files=thread_files())
    if wide:
        import multiprocessing.connection as mpc
        return dict(arm_func='_init_child', arm_cls=cls, files=lpi.MON_FILES + [mpc.__file__])
    return dict(arm_func='_init_child', arm_cls=cls, files=None)


def usable_points(cls, trace):
    """Indices at which a terminate can physically arrive: for thread kinds only
    after the parent has been released from its start-up wait."""
    if 'Thread' not in cls:
        return trace
    start = None
    for j, e in enumerate(trace):
        if e.get('kind') == 'cret' and e.get('file') == 'threading.py' and e.get('func') == 'notify' and e.get('x') == 'release':
            start = j
            break
    if start is None:
        # the parent was not waiting yet when the event was set (no waiter to release): the flag is set before
        # notify_all() is entered, so the constructor cannot block any more from there on
        for j, e in enumerate(trace):
            if e.get('file') == 'threading.py' and e.get('func') == 'notify_all':
                start = j
                break
    for j, e in enumerate(trace):
        if start is not None and j == start:
            out = []
            inside = False
            for x in trace[j:]:
                if x.get('func') == '_init_child' and x.get('file') != 'threading.py':
                    inside = True
                # threading.py is monitored only to expose the window inside the start-up Event.set();
                # later landings inside threading/queue internals (e.g. Condition.wait between releasing and
                # re-acquiring its lock) end in the standard library's own secondary errors, which is not
                # a statement about pyworkers
                if inside and x.get('file') == 'threading.py':
                    continue
                out.append(x)
            return out
    return []


# ---------------------------------------------------------------- region map of the targets (from the AST)

_regions = {}


def _load_regions():
    if _regions:
        return
    src = open(os.path.join(VERIF, 'vlib', 'vtargets.py')).read()
    tree = ast.parse(src)
    for node in tree.body:
        if isinstance(node, ast.FunctionDef) and node.name in TARGET_FUNCS:
            m = {}
            for st in node.body:
                if isinstance(st, ast.Try):
                    for x in st.body:
                        for ln in range(x.lineno, x.end_lineno + 1):
                            m[ln] = 'try-body'
                    for h in st.handlers:
                        for ln in range(h.lineno, h.end_lineno + 1):
                            m[ln] = 'except'
                    for x in st.finalbody:
                        for ln in range(x.lineno, x.end_lineno + 1):
                            m[ln] = 'finally'
                elif isinstance(st, ast.With):
                    m[st.lineno] = 'with-enter'
                    for x in st.body:
                        for ln in range(x.lineno, x.end_lineno + 1):
                            m[ln] = 'try-body'
                else:
                    for ln in range(st.lineno, st.end_lineno + 1):
                        m.setdefault(ln, 'after-try')
            _regions[node.name] = (node.lineno, m)


def region_of(point, marks):
    """pre-target | target-entry | try-body | except | finally | with-enter | after-try | post-target."""
    _load_regions()
    stack = point.get('stack') or []
    entered = any(k.startswith('entered') for k in marks)
    for depth, (f, fn, ln) in enumerate(stack):
        if f == 'vtargets.py' and fn in _regions:
            first, m = _regions[fn]
            if depth == 0 and point['kind'] == 'start' and point['func'] == fn:
                return 'target-entry'
            if fn == 'with_block' and any(s[1] in ('__enter__', '__exit__') for s in stack[:depth]):
                return 'with-enter' if any(s[1] == '__enter__' for s in stack[:depth]) else 'finally'
            return m.get(ln, 'target-entry' if ln <= first + 1 else 'after-try')
    return 'post-target' if entered else 'pre-target'


def shape(obs, own):
    """'wte' | 'own' | 'killed' (True, None, None) | 'none' (has_error None) | 'raised' | 'other:<...>'."""
    he, res, err = obs.get('has_error'), obs.get('result'), obs.get('error')
    for v in (obs.get('is_alive'), he, res, err):
        if isinstance(v, dict) and ('RAISED' in v or 'HANG' in v):
            return 'raised' if 'RAISED' in v else 'hang'
    if he is None:
        return 'none'
    rnone = isinstance(res, dict) and res.get('type') == 'NoneType'
    if he is True:
        if not rnone:
            return 'other:error-with-result'
        if err is None:
            return 'own' if own == ('error', None) else 'killed'
        if isinstance(err, dict) and err.get('type') == 'WorkerTerminatedError':
            return 'wte'
        if isinstance(err, dict) and own[0] == 'error' and err.get('type') == own[1]:
            return 'own'
        return 'other:error=%s' % (err.get('type') if isinstance(err, dict) else err)
    if he is False:
        if err is not None:
            return 'other:result-with-error'
        if own[0] == 'value' and isinstance(res, dict) and res.get('repr') == own[1]:
            return 'own'
        return 'other:result=%s' % (res.get('repr') if isinstance(res, dict) else res)
    return 'other:has_error=%r' % (he,)


# ---------------------------------------------------------------- running the matrix

def run_matrix(tier, classes, scens_one, scens_pers, salt, action=None, parallel=16, events='ebp', inject_action='await', extra_repeats=8, per_class_cap=None, spec_extra=None, wide=False):
    """Returns (cases, traces).  case = dict(cls, scen, k, own, res, rec_event)."""
    wd = workdir('lp_' + salt)
    jobs = []
    traces = {}
    combos = [(c, s) for c in classes for s in (scens_pers if c.startswith('Persistent') else scens_one)]

    def rec(cs):
        cls, scen = cs
        spec, own = scenario_spec(cls, scen)
        spec.update(spec_extra or {})
        a = arm_args(cls, wide)
        files = a['files'] if events == 'ebp' else None
        tr, res = lpi.record(spec, os.path.join(wd, 'rec_%s_%s' % (cls, scen)), events=events, files=files,
                             arm_func=a['arm_func'], arm_cls=a['arm_cls'], arm_caller=a.get('arm_caller'))
        return cs, tr, res

    for cs, tr, res in pmap(rec, combos, parallel):
        traces[cs] = (tr, res)
    default_action = action or dict(kind='terminate', timeout=8, force=False, deadline=60)
    for (cls, scen), (tr, res) in traces.items():
        usable = usable_points(cls, tr)
        kinds = lpi.EBP_KINDS if events == 'ebp' else ('line',)
        # wide traces are short and the same helper is entered twice in a row (header write, body write): take every index
        pts = lpi.select(usable, 'thorough' if wide else tier, '%s/%s/%s' % (salt, cls, scen), kinds=kinds, extra_repeats=extra_repeats)
        if per_class_cap and len(pts) > per_class_cap:
            from vlib.common import rng
            # landing points inside the sections that write to the result stream / report the outcome are never
            # dropped by the cap: [_send_result .. back in do_work], [_cleanup .. end], the exception handler
            crit = critical_indices(tr)
            keep = [k for k in pts if k in crit]
            rest = [k for k in pts if k not in crit]
            n = max(0, per_class_cap - len(keep))
            pts = sorted(keep + (rng('cap', salt, cls, scen).sample(rest, n) if len(rest) > n else rest))
        byi = {e['i']: e for e in tr if 'i' in e}
        for k in pts:
            jobs.append((cls, scen, k, dict(byi.get(k) or {}, at=lpi.at_of(tr, k))))

    def one(job):
        cls, scen, k, rec_event = job
        spec, own = scenario_spec(cls, scen)
        spec.update(spec_extra or {})
        a = arm_args(cls, wide)
        act = dict(default_action)
        if 'Remote' in cls and act.get('kind') == 'terminate':
            act = dict(act)
        spec['action'] = act if inject_action in ('await', 'notify', 'pause') else dict(kind='none')
        spec['wait_timeout'] = 20
        files = a['files'] if events == 'ebp' else None
        res = lpi.act(spec, os.path.join(wd, 'act_%s_%s_%d' % (cls, scen, k)), k, action=inject_action, events=events, files=files,
                      arm_func=a['arm_func'], arm_cls=a['arm_cls'], arm_caller=a.get('arm_caller'), await_s=(3 if tier == 'thorough' else 1.5), at=(rec_event or {}).get('at'))
        cleanup(res['dir'])
        return dict(cls=cls, scen=scen, k=k, own=own, res=res, rec_event=rec_event)

    cases = pmap(one, jobs, parallel)
    cleanup(wd)
    return cases, traces


def digest(case):
    """Flatten what the oracles need out of a case log."""
    res = case['res']
    ev = res['events']
    out = dict(point=None, terminate=None, observations=[], marks={}, death=None, injector={}, hangs=[], raises=[], results=[], stream_end=None, after_end=None, mux=[], mux_end=None,
               timed_out=res['timed_out'], fatal=None, created=None)
    for e in ev:
        t = e.get('ev')
        if t == 'at_point':
            out['point'] = e['point']
        elif t == 'return' and e.get('name') == 'terminate':
            out['terminate'] = dict(value=e['value'], dur=e['dur'])
        elif t == 'raise' and e.get('name') == 'terminate':
            out['terminate'] = dict(value='RAISED:' + e['etype'], dur=e['dur'])
        elif t == 'observation':
            out['observations'].append(e['obs'])
        elif t == 'marks':
            out['marks'] = e['marks']
            out['worker_tid'] = e.get('worker_tid')
            out['worker_pid'] = e.get('worker_pid')
        elif t == 'death':
            out['death'] = e
        elif t == 'injector':
            out['injector'] = {k: v for k, v in e.items() if k not in ('ev', 't')}
        elif t == 'hang':
            out['hangs'].append(dict(name=e['name'], stack=e.get('stack1', [])[:6]))
        elif t == 'raise':
            out['raises'].append(dict(name=e['name'], etype=e['etype'], eargs=e.get('eargs')))
        elif t == 'result':
            out['results'].append(e.get('raw'))
        elif t == 'stream_end':
            out['stream_end'] = e['how']
        elif t == 'mux_msg':
            out['mux'].append((e['counter'], e['flag'], e['value']))
        elif t == 'mux_end':
            out['mux_end'] = e['how']
        elif t == 'after_end':
            out['after_end'] = e
        elif t == 'created':
            out['created'] = e
        elif t == 'case_error':
            out['fatal'] = e.get('tb', '')[-600:]
        elif t == 'done' and isinstance(e.get('result'), dict) and e['result'].get('fatal'):
            out['fatal'] = e['result']['fatal']
    return out


def where(point):
    """Mechanism-level name of a landing point: file:function of the innermost
    pyworkers / target frame."""
    if not point:
        return '?'
    for f, fn, ln in point.get('stack') or []:
        return '%s:%s' % (f, fn)
    return '%s:%s' % (point.get('file'), point.get('func'))


def where_lib(point):
    """Innermost frame that belongs to pyworkers itself (not the target)."""
    if not point:
        return '?'
    for f, fn, ln in point.get('stack') or []:
        if f != 'vtargets.py':
            return '%s:%s' % (f, fn)
    return where(point)


def witness(case, dg):
    return {'cls': case['cls'], 'scenario': case['scen'], 'k': case['k'], 'point': dg['point'], 'recorded_event': case['rec_event'],
            'terminate': dg['terminate'], 'observations': dg['observations'][:3], 'marks': dg['marks'], 'injector': dg['injector'],
            'hangs': dg['hangs'], 'raises': dg['raises'][:4], 'stderr_tail': case['res']['stderr'][-800:]}


# ---------------------------------------------------------------- block of the library's run function at a landing point

_runmaps = {}


def _run_map(fname, func):
    key = (fname, func)
    if key in _runmaps:
        return _runmaps[key]
    from vlib.common import REPO
    path = os.path.join(REPO, 'pyworkers', fname)
    m = {}
    try:
        tree = ast.parse(open(path, 'rb').read().decode().replace('\r\n', '\n'))
    except (OSError, SyntaxError):
        _runmaps[key] = m
        return m

    def walk_try(node, prefix):
        idx = [0]
        for st in node:
            for sub in ast.walk(st) if False else [st]:
                pass
            label_children(st, prefix, idx)

    def label_children(st, prefix, idx):
        if isinstance(st, ast.Try):
            name = '%stry%d' % (prefix, idx[0])
            idx[0] += 1
            for part, body in (('body', st.body), ('finally', st.finalbody)):
                for x in body:
                    for ln in range(x.lineno, x.end_lineno + 1):
                        m[ln] = '%s.%s' % (name, part)
                sub = [0]
                for x in body:
                    label_children(x, name + '.' + part + '.', sub)
            for h in st.handlers:
                for ln in range(h.lineno, h.end_lineno + 1):
                    m[ln] = '%s.except' % name
                sub = [0]
                for x in h.body:
                    label_children(x, name + '.except.', sub)
        else:
            for fld in ('body', 'orelse'):
                for x in getattr(st, fld, []) or []:
                    if isinstance(x, ast.stmt):
                        label_children(x, prefix, idx)

    for node in ast.walk(tree):
        if isinstance(node, ast.FunctionDef) and node.name == func:
            idx = [0]
            for st in node.body:
                for ln in range(st.lineno, st.end_lineno + 1):
                    m.setdefault(ln, 'top')
            for st in node.body:
                label_children(st, '', idx)
    _runmaps[key] = m
    return m


def run_block(point):
    """Structural label of the block of _run/_run_backend the landing point is in,
    e.g. 'try0.body', 'try0.except', 'try0.finally', 'try0.body.try0.except'."""
    for f, fn, ln in (point or {}).get('stack') or []:
        if fn in ('_run', '_run_backend') and f in ('thread.py', 'process.py', 'remote.py'):
            return _run_map(f, fn).get(ln, 'top')
    return 'outside-run'


def stdlib_internal(point):
    """Landing inside threading/queue lock handling (reachable for thread kinds, where threading.py is
    monitored): the standard library itself is not async-exception safe there."""
    p = point or {}
    if p.get('file') not in ('threading.py', 'queue.py'):
        return False
    stack = p.get('stack') or []
    # the start-up Event.set() window of ThreadWorker._run is pyworkers' business, everything else is not
    in_startup_set = any(fr[1] == 'set' for fr in stack) and not any(fr[1] in ('do_work', '_cleanup', '_send_result', '_init_child') for fr in stack)
    return not in_startup_set


def critical_indices(trace):
    """Indices of recorded events before the child has initialised itself (_init_child), inside _send_result
    (until control is back in do_work) and from the first _cleanup / exception-handler logging to the end of the run."""
    out = set()
    inside = 'startup' if any(e.get('func') == '_init_child' for e in trace) else None
    for e in trace:
        if 'i' not in e:
            continue
        f = e.get('func')
        if inside == 'startup' and f == '_init_child':
            # the window between "the parent may go on" and the child having initialised itself
            out.add(e['i'])
            inside = None
        if f == '_send_result' and e.get('kind') == 'start':
            inside = 'send'
        elif f == '_cleanup' and e.get('kind') == 'start':
            inside = 'cleanup'
        elif inside == 'send' and f == 'do_work':
            inside = None
        if inside:
            out.add(e['i'])
    return out


def replay_case(spec, extra=None):
    """Re-run the single landing-point case recorded in a replay file and print what happened."""
    import json
    w = spec.get('witness', {})
    if not w.get('cls') or not (w.get('recorded_event') or {}).get('at'):
        print(json.dumps(spec, indent=1)[:6000])
        return 0
    cls, scen = w['cls'], w['scenario']
    sp, own = scenario_spec(cls, scen)
    sp.update(extra or {})
    a = arm_args(cls)
    sp['action'] = dict(kind='terminate', timeout=8, force=False)
    sp['wait_timeout'] = 20
    wd = workdir('replay')
    kind = w['recorded_event']['at']['kind']
    events = 'line' if kind == 'line' else 'ebp'
    res = lpi.act(sp, os.path.join(wd, 'case'), w.get('k', -1), events=events, files=(a['files'] if events == 'ebp' else None),
                  arm_func=a['arm_func'], arm_cls=a['arm_cls'], arm_caller=a.get('arm_caller'), await_s=3, at=w['recorded_event']['at'])
    dg = digest(dict(res=res))
    print('replayed %s / %s at %s' % (cls, scen, w['recorded_event']['at']))
    print('landing point actually hit:', json.dumps(dg['point'])[:600])
    print('injector:', dg['injector'])
    print('terminate():', dg['terminate'])
    for i, o in enumerate(dg['observations'][:3]):
        print('observation %d: %s' % (i, json.dumps(o)[:300]))
    print('marks:', dg['marks'])
    print('stream:', dg['results'], dg['stream_end'], dg['mux'], dg['mux_end'])
    print('hangs:', dg['hangs'])
    print('stderr tail:\n' + res['stderr'][-800:])
    cleanup(wd)
    return 0


def require_classes(chk, cases, classes, what, min_cases=3):
    """A class whose landing points were never reached must not pass silently (inconclusive, not held)."""
    import collections
    n = collections.Counter()
    for c in cases:
        if any(e.get('ev') == 'at_point' for e in c['res']['events']):
            n[c['cls']] += 1
    chk.extra.setdefault('landing_cases_per_class', {})[what] = dict(n)
    for cls in classes:
        if n[cls] < min_cases:
            chk.inconclusive('%s: only %d landing-point cases reached for %s' % (what, n[cls], cls), None)
