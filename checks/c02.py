"""C02 - all worker kinds compute exactly what a direct call would.

Differential monitor: a generated (target, args, kwargs) triple is called
directly in the harness process (reference) and run in a thread, a process and
a remote worker; after wait(None) (bounded by the hang monitor) has_error /
result / error must match the reference by type and ==, and the kinds must
agree with each other."""
import copy
import os

from vlib.common import Check, rng, run_case, pmap, workdir, cleanup, short, VERIF

SIZES = [0, 1, 100, 65535, 65536, 65537, 1 << 20, 4 << 20]
PRIMS = [None, 0, 1, -2.5, '', 'txt', [], {}, [1, [2, [3]]], {'k': {'k': [None, False]}}, {'__val__': [1, 'a']}, True, False, 'x' * 300]


EXC_MENU = ['BrokenPipeError', 'ConnectionResetError', 'ConnectionAbortedError', 'EOFError', 'TimeoutError', 'InterruptedError', 'BlockingIOError', 'queue.Empty', 'queue.Full',
            'StopIteration', 'AssertionError', 'RuntimeError', 'AttributeError', 'TypeError', 'ImportError', 'MemoryError', 'RecursionError', 'LookupError', 'BufferError',
            'WorkerTerminatedError', 'NotImplementedError', 'PermissionError', 'ChildProcessError']


def gen_triple(r, thorough):
    kind = r.choice(['ret', 'ret', 'echo', 'echo', 'arith', 'build', 'build', 'raise', 'raise', 'mutate', 'slow'] + (['nested'] if r.random() < 0.25 else []))
    kwargs = {}
    if kind == 'nested':
        # a target that uses helper processes of its own (another worker, a multiprocessing pool)
        return dict(target='nested_workers', args=[r.randint(1, 9), r.choice(['process', 'mp-pool'])], kwargs={}, via=r.choice(['ctor', 'create']), run=None, tuple_args=False, wait_mode='plain')
    if kind == 'slow':
        # a result / exception that takes a while to rebuild on the receiving side
        t, args = 'ret_slow', [r.randint(1, 99), r.choice([0.3, 0.8]), r.random() < 0.3]
    elif kind == 'ret':
        t, args = 'ret_value', [r.choice(PRIMS)]
    elif kind == 'echo':
        t = 'echo'
        args = [r.choice(PRIMS) for _ in range(r.randint(0, 3))]
        kwargs = {('k%d' % i): r.choice(PRIMS) for i in range(r.randint(0, 2))}
    elif kind == 'arith':
        t = 'arith'
        args = [r.randint(-5, 5)] + ([r.randint(1, 4)] if r.random() < 0.5 else [])
        if r.random() < 0.5:
            kwargs = {'c': r.randint(0, 9)}
    elif kind == 'build':
        t = 'build'
        args = [r.choice(['bytes', 'list', 'dict', 'val', 'nested']), r.choice(SIZES if thorough else SIZES[:7])]
        if args[0] in ('dict', 'list') and args[1] > 65537:
            args[1] = 70000
    elif kind == 'raise':
        t = 'raise_exc'
        # exception classes the library itself handles somewhere (pipe / connection / queue / termination errors) included:
        # raised by the target they are the target's own outcome like any other
        k = r.choice(['ValueError', 'KeyError', 'Custom', 'OSError', 'ZeroDivision'] + EXC_MENU)
        if k == 'OSError':
            args = [k, r.choice([2, 4, 11, 13, 32, 104, 110, 111]), 'msg']      # the errno picks the subclass (FileNotFoundError, BrokenPipeError, ...)
        else:
            args = [k] + [r.choice(['a', 1, None]) for _ in range(r.randint(0, 2))]
    else:
        t = 'mutate'
        args = [[1, 2], {'a': 1}]
    return dict(target=t, args=args, kwargs=kwargs, via=r.choice(['ctor', 'ctor', 'create']), run=r.choice([None, None, None, True]),
                tuple_args=r.random() < 0.3, wait_mode=r.choice(['plain', 'plain', 'polled']))


def case(spec, log):
    """Runs a batch of triples on the three kinds.  Records comparisons only."""
    import logging
    import sys
    logging.disable(logging.CRITICAL)
    from vlib import vtargets
    from vlib.case import Bounded, HANG, Raised
    from vlib.vstate import decode
    from pyworkers.worker import Worker, WorkerType
    from pyworkers.thread import ThreadWorker
    from pyworkers.process import ProcessWorker
    from pyworkers.remote import RemoteWorker
    from pyworkers.remote_server import spawn_server
    bounded = Bounded(log)
    server = spawn_server(('127.0.0.1', 0))
    out = []
    try:
        for ti, tr in enumerate(spec['triples']):
            if tr['target'] is None:
                target = None
            elif tr['target'].startswith('main:'):
                target = getattr(sys.modules['__main__'], tr['target'][5:])
            else:
                target = getattr(vtargets, tr['target'])
            args = [decode(a) for a in tr['args']]
            kwargs = {k: decode(v) for k, v in tr['kwargs'].items()}
            # reference: direct call on deep copies
            ref = {}
            runs = not (tr.get('run') is False or (target is None and tr.get('run') is None))
            if not runs or target is None:
                ref = {'ok': True, 'value': None}
            else:
                try:
                    ref = {'ok': True, 'value': target(*copy.deepcopy(args), **copy.deepcopy(kwargs))}
                except Exception as e:
                    ref = {'ok': False, 'etype': type(e), 'eargs': e.args}
            rec = {'i': ti, 'triple': {k: (v if k != 'args' else repr(v)[:120]) for k, v in tr.items()}, 'kinds': {},
                   'ref': ('value:' + type(ref['value']).__name__ + ':' + repr(ref['value'])[:80]) if ref['ok'] else ('error:' + ref['etype'].__name__ + ':' + repr(ref['eargs'])[:80])}
            for kind, cls, wt in (('thread', ThreadWorker, WorkerType.THREAD), ('process', ProcessWorker, WorkerType.PROCESS), ('remote', RemoteWorker, WorkerType.REMOTE)):
                a_, k_ = copy.deepcopy(args), copy.deepcopy(kwargs)   # thread workers share memory with us: never reuse argument objects
                kw = dict(args=tuple(a_) if tr.get('tuple_args') else list(a_), kwargs=k_)
                if 'run' in tr and tr['run'] is not None:
                    kw['run'] = tr['run']
                if kind == 'remote':
                    kw['host'] = server.addr
                if tr.get('via') == 'create':
                    w = bounded('create:%s:%d' % (kind, ti), lambda: Worker.create(wt, target, **kw), 60)
                else:
                    w = bounded('create:%s:%d' % (kind, ti), lambda: cls(target, **kw), 60)
                o = {}
                if w is HANG or isinstance(w, Raised):
                    o['create'] = 'hang' if w is HANG else 'raised:' + type(w.exc).__name__
                    rec['kinds'][kind] = o
                    continue
                if not runs:
                    o['dead_at_once'] = (w.is_alive() is False)
                if tr.get('wait_mode') == 'polled':
                    # the polling idiom first (timed waits mixed with is_alive()), then the wait() the property speaks about
                    import time
                    t0 = time.monotonic()
                    while time.monotonic() - t0 < 30:
                        p1 = bounded('pollwait:%s:%d' % (kind, ti), lambda: w.wait(0.05), 20)
                        if p1 is not False:
                            break
                        p2 = bounded('pollalive:%s:%d' % (kind, ti), lambda: w.is_alive(), 20)
                        if p2 is not True:
                            break
                d = bounded('wait:%s:%d' % (kind, ti), lambda: w.wait(None), 45)
                if d is HANG:
                    o['wait'] = 'hang'
                    try:
                        bounded('cleanup-terminate', lambda: w.terminate(timeout=1, **({} if kind == 'process' else {'force': False})), 20)
                    except BaseException:  # noqa
                        pass
                    rec['kinds'][kind] = o
                    continue
                o['wait'] = repr(d if not isinstance(d, Raised) else 'raised:' + type(d.exc).__name__)
                try:
                    he, res, err = w.has_error, w.result, w.error
                except BaseException as e:  # noqa
                    o['accessor'] = 'raised:' + type(e).__name__
                    rec['kinds'][kind] = o
                    continue
                o['has_error'] = he
                o['result_type'] = type(res).__name__
                o['error_type'] = type(err).__name__ if err is not None else None
                if ref['ok']:
                    try:
                        eq = (type(res) is type(ref['value'])) and (res == ref['value'])
                    except BaseException:  # noqa
                        eq = False
                    o['match'] = bool(he is False and err is None and eq)
                    if not o['match']:
                        o['got'] = 'he=%r res=%s err=%r' % (he, repr(res)[:80], err)
                else:
                    o['match'] = bool(he is True and res is None and type(err) is ref['etype'] and getattr(err, 'args', None) == ref['eargs'])
                    if not o['match']:
                        o['got'] = 'he=%r res=%s err=%r args=%r' % (he, repr(res)[:60], err, getattr(err, 'args', None))
                rec['kinds'][kind] = o
            out.append(rec)
            log.ev('triple', rec=rec)
    finally:
        try:
            server.terminate(timeout=1, force=True)
        except BaseException:  # noqa
            pass
    return {'n': len(out)}


def size_class(tr):
    if tr['target'] == 'build':
        n = tr['args'][1]
        return 'size<64K' if n < 65536 else ('size>=64K' if n <= 65537 else 'size>=1M')
    return '-'


def run(tier):
    thorough = tier == 'thorough'
    chk = Check('C02', 'exploration', tier,
                'seeded triples over targets (identity, echo with positional/keyword shapes, arithmetic, container/bytes builders up to 4 MiB crossing the 64 KiB pipe buffer, raising variants with arguments, argument-mutating) '
                'x {constructor, Worker.create} x run {None, True, False} x target None x tuple/list args x {wait(None), timed-wait/is_alive polling then wait(None)} x results slow to rebuild on the receiving side x targets that start helper processes of their own x {importable module, main script}; each run on thread, process and remote workers and compared with the direct call; '
                'distinct non-trivial = distinct (target, argument shape, size class, outcome class, construction)')
    r = rng('c02')
    n = 600 if thorough else 180
    triples = [gen_triple(r, thorough) for _ in range(n)]
    # fixed corner cases
    triples += [dict(target=None, args=[], kwargs={}, via='ctor', run=None), dict(target=None, args=[], kwargs={}, via='create', run=None),
                dict(target=None, args=[], kwargs={}, via='ctor', run=True), dict(target='ret_value', args=[5], kwargs={}, via='ctor', run=False),
                dict(target='ret_value', args=[5], kwargs={}, via='create', run=False),
                dict(target='build', args=['bytes', 65536], kwargs={}, via='ctor', run=None), dict(target='build', args=['bytes', 1 << 20], kwargs={}, via='ctor', run=None),
                dict(target='build', args=['list', 70000], kwargs={}, via='create', run=None), dict(target='ret_value', args=[0], kwargs={}, via='ctor', run=None),
                dict(target='ret_value', args=[None], kwargs={}, via='ctor', run=None), dict(target='ret_value', args=[''], kwargs={}, via='create', run=None),
                dict(target='ret_slow', args=[7, 0.8, False], kwargs={}, via='ctor', run=None, wait_mode='polled'), dict(target='ret_slow', args=[8, 0.8, True], kwargs={}, via='create', run=None, wait_mode='polled'),
                dict(target='build', args=['bytes', 4 << 20], kwargs={}, via='ctor', run=None, wait_mode='polled'), dict(target='ret_value', args=[None], kwargs={}, via='ctor', run=None, wait_mode='polled')]
    triples += [dict(target='raise_exc', args=[k] + ([] if i % 2 else ['x']), kwargs={}, via='ctor' if i % 3 else 'create', run=None) for i, k in enumerate(EXC_MENU)]
    triples += [dict(target='nested_workers', args=[3, how], kwargs={}, via=via, run=None) for how in ('process', 'mp-pool') for via in ('ctor', 'create')]
    triples += [dict(target='raise_exc', args=['OSError', en, 'm'], kwargs={}, via='ctor', run=None) for en in (4, 11, 32, 104, 110, 111)]
    main_triples = [dict(target='main:main_ret', args=[4], kwargs={}, via='ctor', run=None), dict(target='main:main_raise', args=[4], kwargs={}, via='ctor', run=None),
                    dict(target='main:main_plain', args=[4], kwargs={}, via='create', run=None), dict(target='main:main_ret', args=[[1, 2]], kwargs={}, via='create', run=None)]
    wd = workdir('c02')
    batches = [(triples[i:i + 6], None) for i in range(0, len(triples), 6)]
    batches.append((main_triples, os.path.join(VERIF, 'vlib', 'scripts', 'main_case.py')))

    def one(ib):
        i, (b, script) = ib
        res = run_case('checks.c02:case', {'triples': b}, os.path.join(wd, 'b%d' % i), timeout=600, script=script)
        cleanup(res['dir'])
        return b, script, res

    for b, script, res in pmap(one, list(enumerate(batches)), 8):
        recs = [e['rec'] for e in res['events'] if e.get('ev') == 'triple']
        if len(recs) < len(b):
            hangs = [e for e in res['events'] if e.get('ev') == 'hang']
            chk.inconclusive('batch incomplete (%d of %d triples)' % (len(recs), len(b)), {'stderr': res['stderr'][-500:], 'hangs': hangs[:2], 'timed_out': res['timed_out']})
        for rec in recs:
            tr = b[rec['i']]
            where = 'main-script' if script else 'module'
            outcome = rec['ref'].split(':')[0]
            chk.case((tr['target'], len(tr['args']), sorted(tr['kwargs']), size_class(tr), outcome, tr.get('via'), tr.get('run'), tr.get('tuple_args'), tr.get('wait_mode'), where, rec['ref'][:40]))
            chk.count('triples')
            chk.count('reference_' + outcome)
            for kind, o in rec['kinds'].items():
                chk.count('worker_runs')
                prob = None
                if 'create' in o:
                    prob = 'constructor-' + o['create']
                elif o.get('wait') == 'hang':
                    prob = 'wait-blocks'
                elif o.get('wait') != 'True':
                    prob = 'wait-returned-%s' % o.get('wait')
                elif 'accessor' in o:
                    prob = 'accessor-' + o['accessor']
                elif o.get('dead_at_once') is False:
                    prob = 'not-run-worker-alive'
                elif not o.get('match'):
                    prob = 'differs-from-direct-call'
                if prob:
                    hang = [e for e in res['events'] if e.get('ev') == 'hang' and e.get('name', '').startswith('wait:%s:%d' % (kind, rec['i']))]
                    key = '%s:%s:%s:%s:%s' % (prob, kind, tr['target'] if not script else 'main-script-class', size_class(tr), outcome)
                    chk.violation(key, '%s worker, target %s%s (%s): %s; reference %s; got %s' % (kind, tr['target'], short(tr['args'], 60), where, prob, rec['ref'], o.get('got')),
                                  {'triple': tr, 'kind': kind, 'observed': o, 'reference': rec['ref'], 'hang_stack': hang[:1]})
            if len(chk.samples) < 5:
                chk.sample({'triple': rec['triple'], 'reference': rec['ref'], 'kinds': rec['kinds']})
    cleanup(wd)
    chk.assumptions = ['equality = same type and ==; exceptions by type and args', 'wait(None) runs under the hang monitor (45 s); a hang is reported with the blocked stack']
    return chk.finish(min_distinct=20)


def replay(spec):
    import json
    print(json.dumps(spec, indent=1)[:5000])
    return 0
