"""C03 - graceful terminate interrupts the target wherever it is and is reported as such.

One fresh worker per eval-breaker landing point of the child's run (recorded
with sys.monitoring); the *real* terminate() is delivered exactly there.
Oracle per landing region: markers written by the target's except/finally in
the worker's own thread, terminate() return value and duration, outcome shape."""
from vlib.common import Check, short
from checks import lp

SLACK = 10.0


def judge(chk, case):
    dg = lp.digest(case)
    cls, scen, own = case['cls'], case['scen'], case['own']
    if dg['fatal'] or dg['timed_out']:
        chk.inconclusive('case did not complete (%s)' % (dg['fatal'] or 'watchdog'), lp.witness(case, dg))
        return
    if dg['point'] is None:
        chk.count('point_not_reached')
        return
    inj = dg['injector']
    arrived = 'landed' in inj
    if not arrived and 'never_arrived' not in inj:
        chk.count('injector_state_unknown')
    region = lp.region_of(dg['point'], dg['marks']) if arrived else 'request-not-delivered'
    chk.case((cls, scen, dg['point']['kind'], dg['point']['file'], dg['point']['func'], dg['point']['line'], region))
    chk.count('region_' + region)
    chk.count('class_' + cls)
    chk.extra.setdefault('landing_functions', {}).setdefault(cls, set()).add(lp.where(dg['point']))
    if not dg['observations']:
        key = 'not-dead:%s:%s' % (kind_of(cls), lp.where_lib(dg['point']))
        chk.violation(key, '%s/%s: worker not dead after terminate landing at %s (%s); terminate=%s hangs=%s' % (cls, scen, lp.where(dg['point']), region, dg['terminate'], dg['hangs'][:1]), lp.witness(case, dg))
        return
    sh = lp.shape(dg['observations'][0], own)
    chk.count('outcome_' + sh.split(':')[0])
    term = dg['terminate']
    probs = []
    if term is None:
        probs.append('terminate-did-not-return')
    else:
        if term['value'] != 'True':
            probs.append('terminate-returned-%s' % term['value'])
        if term['dur'] > 8 + SLACK:
            probs.append('terminate-slow')
    marks = dg['marks']
    suffix = ''
    if cls.startswith('Persistent'):
        # the input being processed at the landing point
        cur = [k.split('.', 1)[1] for k in marks if k.startswith('entered.')]
        suffix = '.' + cur[-1] if cur else ''
    if region == 'try-body':
        if sh != 'wte':
            probs.append('outcome-%s-instead-of-WTE' % sh)
        # only one request lands per case, so any except marker stems from it
        ex = [v for k, v in sorted(marks.items()) if k.startswith('except_wte')]
        fin = [k for k in marks if k.startswith('finally')]
        ent = [k for k in marks if k.startswith('entered')]
        if not ex:
            probs.append('except-marker-missing')
        elif 'tid=%s ' % dg.get('worker_tid') not in ex[-1][0] + ' ':
            probs.append('except-marker-from-other-thread')
        if len(fin) < max(1, len(ent)):
            probs.append('finally-marker-missing')
    elif region in ('pre-target', 'target-entry', 'with-enter'):
        if sh != 'wte':
            probs.append('outcome-%s-instead-of-WTE' % sh)
    elif region in ('except', 'finally', 'after-try', 'post-target'):
        if sh not in ('wte', 'own'):
            probs.append('outcome-%s-neither-WTE-nor-own' % sh)
    elif region == 'request-not-delivered':
        if sh not in ('own', 'wte'):
            probs.append('outcome-%s-neither-WTE-nor-own' % sh)
    if probs:
        block = lp.run_block(dg['point'])
        sending = any(fr[1] in ('put', 'send', 'send_msg', '_send_result', 'child_end', 'sendall', '_send_bytes', 'remote_dumps') for fr in dg['point'].get('stack') or [])
        last = 'inside-report-send' if sending else 'other'
        if region == 'pre-target' and not sending:
            # before the target: name the library function the request landed in (start-up steps differ in what they have set up)
            last = 'in-' + str(dg['point'].get('func'))
        key = '%s:%s:%s:%s:%s' % (probs[0], kind_of(cls), region, block, last)
        if lp.stdlib_internal(dg['point']):
            key = 'terminate-inside-stdlib-lock-internals:%s' % kind_of(cls)
        chk.violation(key, '%s/%s: terminate landing at %s line %s (%s, region %s): %s; outcome shape %s, terminate=%s' % (
            cls, scen, lp.where(dg['point']), dg['point'].get('line'), dg['point']['kind'], region, ', '.join(probs), sh, term), lp.witness(case, dg))
    elif len(chk.samples) < 6 and region in ('try-body', 'post-target'):
        chk.sample({'cls': cls, 'scenario': scen, 'landing': dg['point']['stack'][:3], 'kind': dg['point']['kind'], 'region': region, 'outcome': sh, 'terminate': term, 'marks': sorted(marks)})


def kind_of(cls):
    return cls.replace('Worker', '')


def run(tier):
    chk = Check('C03', 'fault_enumeration', tier,
                'landing points = eval-breaker points (PY_START/PY_RESUME, backward JUMP, C_RETURN/C_RAISE) of the child from start-up to the end of its run function, recorded per (class, scenario); '
                'quick: first occurrence of every (kind, file, function, line) + seeded repeats, thorough: every index; one fresh worker per point with the real terminate(timeout=8, force=False); '
                'distinct non-trivial = distinct (class, scenario, point, region) at which the request really landed')
    scen_one = ['loop', 'short', 'raise', 'with'] if tier == 'thorough' else ['loop', 'short', 'raise']
    scen_pers = ['p2', 'pfail'] if tier == 'thorough' else ['p2']
    cases, traces = lp.run_matrix(tier, lp.ALL, scen_one, scen_pers, 'c03', extra_repeats=(0 if tier == 'thorough' else 2), per_class_cap=(None if tier == 'thorough' else 70))
    for (cls, scen), (tr, res) in traces.items():
        chk.count('recorded_points_total', sum(1 for e in tr if e.get('kind') in ('start', 'resume', 'jump', 'cret')))
        if not tr:
            chk.inconclusive('no trace recorded for %s/%s' % (cls, scen), {'stderr': res['stderr'][-600:]})
    for c in cases:
        judge(chk, c)
    lp.require_classes(chk, cases, lp.ALL, 'terminate-matrix')
    # a result larger than the pipe buffer, with multiprocessing/connection.py monitored: landing between
    # the header and the body of the send
    cases2, _ = lp.run_matrix(tier, ['ProcessWorker'], ['bigret'], [], 'c03big', extra_repeats=0, wide=True)
    for c in cases2:
        judge(chk, c)
    chk.count('large_result_send_cases', len(cases2))
    chk.extra['landing_functions'] = {k: sorted(v) for k, v in chk.extra.get('landing_functions', {}).items()}
    idle_cases(chk, tier)
    ctrl_thread_delays(chk, tier)
    chk.assumptions = ['CPython delivers asynchronous exceptions only at eval-breaker polls; the enumerated events are those polls',
                       'points inside stdlib functions called from pyworkers are represented by the entry of the outermost such function (threading.py is monitored for thread kinds)',
                       'terminate timeout 8 s; the injector gives up waiting after 3 s (request-not-delivered region)']
    return chk.finish(min_distinct=50)


def idle_cases(chk, tier):
    """Persistent workers terminated while idle (blocked waiting for input): the
    request cannot land inside the blocking C call; it lands when the release
    mechanism wakes the child."""
    import os
    from vlib import lpi
    from vlib.common import workdir, pmap, cleanup
    wd = workdir('c03idle')
    jobs = []
    for cls in lp.PERSISTENT:
        for n in ((0, 1, 3) if tier == 'thorough' else (0, 2)):
            for settle in ((0.0, 0.05, 0.3) if tier == 'thorough' else (0.05,)):
                jobs.append((cls, n, settle))

    def one(job):
        cls, n, settle = job
        spec = dict(cls=cls, target='p_work', targs=[0, '$DIR'], inputs=[[i + 1] for i in range(n)], read_first=n, close_before_point=False, quiet=False,
                    action=dict(kind='terminate', timeout=8, force=False, settle=settle), expect_point=False)
        from vlib.common import run_case
        res = run_case('vlib.wcase:lifecycle', spec, os.path.join(wd, '%s_%d_%s' % (cls, n, settle)), timeout=90)
        return job, res

    for job, res in pmap(one, jobs, 8):
        cls, n, settle = job
        case = dict(cls=cls, scen='idle%d' % n, k=-1, own=('value', str(n)), res=res, rec_event=None)
        dg = lp.digest(case)
        chk.case(('idle', cls, n, settle))
        chk.count('idle_cases')
        if not dg['observations']:
            chk.violation('idle:not-dead:%s' % kind_of(cls), '%s idle after %d inputs: not dead after terminate; terminate=%s' % (cls, n, dg['terminate']), lp.witness(case, dg))
            continue
        sh = lp.shape(dg['observations'][0], ('value', str(n)))
        chk.count('idle_outcome_' + sh)
        term = dg['terminate']
        if sh != 'wte' or term is None or term['value'] != 'True':
            chk.violation('idle:%s:%s' % ('outcome-' + sh if sh != 'wte' else 'terminate-' + str(term and term['value']), kind_of(cls)),
                          '%s terminated while idle after %d inputs (settle %.2fs): outcome %s, terminate=%s' % (cls, n, settle, sh, term), lp.witness(case, dg))
    cleanup(wd)


def ctrl_thread_delays(chk, tier):
    """The request is delivered by a control thread inside the child (process and remote kinds).  That thread is
    delayed at each of its own lines (and those of the helpers it calls) while the parent's terminate() goes on:
    whatever the order in which acknowledgement, wake-up and the asynchronous exception become visible, the
    outcome must be WorkerTerminatedError."""
    import os
    from vlib import lpi
    from vlib.common import workdir, pmap, cleanup, run_case
    wd = workdir('c03ctrl')
    combos = [('PersistentProcessWorker', '_ctrl_fn', 'idle'), ('PersistentProcessWorker', '_ctrl_fn', 'idle-tnone'), ('ProcessWorker', '_ctrl_fn', 'loop'), ('PersistentRemoteWorker', '_ctrl_fn_local', 'idle'), ('RemoteWorker', '_ctrl_fn_local', 'loop'),
              ]

    def spec_of(cls, state):
        if state in ('idle', 'idle-tnone'):
            sp = dict(cls=cls, target='p_work', targs=[0, '$DIR'], inputs=[[1]], read_first=1, close_before_point=False, quiet=False)
            own = ('value', '1')
        else:
            # a target that never finishes on its own
            sp, own = dict(cls=cls, target='py_loop', targs=['$DIR', None], quiet=False), ('value', 'never')
        # 'tnone': terminate(timeout=None) - wait as long as it takes
        sp = dict(sp, action=dict(kind='terminate', timeout=(None if state.endswith('tnone') else 8), force=False, settle=0.3, deadline=40), expect_point=False, wait_timeout=20)
        return sp, own

    jobs = []
    for cls, fn, state in combos:
        sp, own = spec_of(cls, state)
        rdir = os.path.join(wd, 'rec_%s_%s' % (cls, state))
        res = run_case('vlib.wcase:lifecycle', sp, rdir, timeout=90, inject=lpi.cfg(cls, 'record', events='line', arm_func=fn, end=[fn]))
        import glob
        import json
        trace = []
        for f in glob.glob(os.path.join(rdir, 'trace.*.jsonl')):
            t = [json.loads(l) for l in open(f) if l.strip()]
            if len(t) > len(trace):
                trace = t
        cleanup(rdir)
        lines = [e for e in trace if e.get('kind') == 'line' and 'i' in e]
        chk.count('ctrl_thread_lines_recorded_%s_%s' % (kind_of(cls), state), len(lines))
        if len(lines) < 3:
            chk.inconclusive('control-thread trace of %s (%s) too short: %d lines' % (cls, state, len(lines)), {'stderr': res['stderr'][-400:]})
            continue
        # the lines executed after the request has arrived are at the end of the trace
        for e in (lines if tier == 'thorough' or len(lines) <= 16 else lines[-16:]):
            jobs.append((cls, fn, state, e['i'], lpi.at_of(trace, e['i']), e.get('func'), e.get('line')))

    def one(job):
        cls, fn, state, k, at, func, line = job
        sp, own = spec_of(cls, state)
        inject = lpi.cfg(cls, 'act', events='line', k=k, action='pause', arm_func=fn, end=[fn], pause_s=0.7, at=at)
        res = run_case('vlib.wcase:lifecycle', sp, os.path.join(wd, 'act_%s_%s_%d' % (cls, state, k)), timeout=120, inject=inject)
        import glob
        res['held'] = bool(glob.glob(os.path.join(res['dir'], 'at_point.*')))
        cleanup(res['dir'])
        return job, own, res

    for job, own, res in pmap(one, jobs, 12):
        cls, fn, state, k, at, func, line = job
        case = dict(cls=cls, scen='ctrl-%s' % state, k=k, own=own, res=res, rec_event=dict(at=at))
        dg = lp.digest(case)
        chk.case(('ctrl-delay', cls, state, func, line))
        chk.count('ctrl_thread_delay_cases')
        chk.count('ctrl_thread_delay_point_' + ('reached' if res.get('held') else 'not_reached'))
        where = '%s:%s' % (func, line)
        if not dg['observations']:
            chk.violation('ctrl-delay:not-dead:%s:%s' % (kind_of(cls), state), '%s (%s), control thread held at %s: not dead after terminate; terminate=%s' % (cls, state, where, dg['terminate']), lp.witness(case, dg))
            continue
        sh = lp.shape(dg['observations'][0], own)
        term = dg['terminate']
        chk.count('ctrl_thread_delay_outcome_' + sh.split(':')[0])
        if sh != 'wte' or term is None or term['value'] != 'True':
            chk.violation('ctrl-delay:%s:%s:%s:in-%s' % ('outcome-' + sh.split(':')[0] if sh != 'wte' else 'terminate-' + str(term and term['value']), kind_of(cls), state, func),
                          '%s (%s) with its control thread held for 0.7 s at %s: outcome %s, terminate=%s' % (cls, state, where, sh, term), lp.witness(case, dg))
    cleanup(wd)


def replay(spec):
    from checks import lp
    return lp.replay_case(spec)
